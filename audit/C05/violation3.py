'''C05 violation (low plausibility: one depth holding dates under one parent and non-dates
under another): a datetime64 label used as a per-level selector across parents is compared
with the labels of every sibling sub-tree by converting those labels to datetime64. Integer
labels are converted as offsets from the epoch, so a row whose tuple does NOT match the
selector is selected; string labels make the whole selection raise ValueError.

Cause: LocMap.loc_to_iloc (static_frame/core/index.py): `if isinstance(key, np.datetime64):
if labels.dtype != key.dtype: key = labels.astype(key.dtype) == key` is applied to any
non-datetime label array (int, str), not only to datetime64 arrays of another unit.
(The documented design exclusion is about datetime64 objects held in an object index; here
the sibling indices hold plain ints / strs.)
'''
import sys
sys.path.insert(0, sys.argv[1])
import numpy as np
import static_frame as sf
from static_frame import HLoc
D = np.datetime64

bad = []
labels = [('daily', D('1975-07-14')), ('daily', D('1975-07-15')), ('yearly', 2019), ('yearly', 2020)]
ih = sf.IndexHierarchy.from_labels(labels)
s = sf.Series((1, 2, 3, 4), index=ih)
key = HLoc[:, D('1975-07-14')]
want = [i for i, t in enumerate(labels) if t[1] == D('1975-07-14')]   # [0]
r = s[key]
got_vals = r.values.tolist() if isinstance(r, sf.Series) else [int(r)]
want_vals = [i + 1 for i in want]
print("labels:", labels)
print("s[HLoc[:, datetime64('1975-07-14')]] -> values", got_vals, "i.e. rows", [labels[v - 1] for v in got_vals],
        " expected", want_vals, "i.e. rows", [labels[i] for i in want])
if got_vals != want_vals:
    bad.append('int sibling matched by epoch conversion')

labels2 = [('a', D('2020-01-01')), ('a', D('2020-01-02')), ('b', 's'), ('b', 't')]
ih2 = sf.IndexHierarchy.from_labels(labels2)
try:
    p = ih2.loc_to_iloc(HLoc[:, D('2020-01-01')])
    print('labels2 selection ->', p)
    if p != 0 and list(np.atleast_1d(p)) != [0]:
        bad.append('string sibling')
except Exception as e:
    print("labels2:", labels2)
    print("loc_to_iloc(HLoc[:, datetime64('2020-01-01')]) raised", type(e).__name__, '-', e, ' expected position 0')
    bad.append('string sibling raises')

if bad:
    print('VIOLATION:', bad)
    sys.exit(1)
print('no violation')
sys.exit(0)
