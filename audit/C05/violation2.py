'''C05 violation: membership of an IndexHierarchy does not describe the same set of tuples as
its labels / lookup: a tuple longer than the depth whose prefix is a held label is reported
as a member, although it is no label of the index and loc_to_iloc raises KeyError for it.

Cause: IndexLevel.__contains__ (static_frame/core/index_level.py) returns True once the
leaf level contains the current element, without checking that the key has no further
elements.
'''
import sys
sys.path.insert(0, sys.argv[1])
import static_frame as sf

bad = []
def probe(ih, key, tag):
    held = [tuple(t) for t in ih]
    member = key in ih
    try:
        lookup = ih.loc_to_iloc(key)
    except KeyError:
        lookup = 'KeyError'
    print(f'{tag}: {key!r} in ih -> {member}; in label tuples -> {key in held}; loc_to_iloc -> {lookup}')
    if member != (key in held):
        bad.append(key)

ih = sf.IndexHierarchy.from_labels([('a', 1), ('a', 2), ('b', 1)])
probe(ih, ('a', 2, 'x'), 'from_labels depth 2')
g = sf.IndexHierarchyGO.from_labels([('a', 'x', 1)])
g.append(('a', 'y', 2))
g.values
g.append(('b', 'x', 1))
probe(g, ('b', 'x', 1, 0), 'IndexHierarchyGO depth 3 after appends')
probe(g, ('a', 'y', 2), 'IndexHierarchyGO depth 3 (held label, control)')
if bad:
    print('VIOLATION: membership disagrees with the label tuples for', bad)
    sys.exit(1)
print('no violation')
sys.exit(0)
