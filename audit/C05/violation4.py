'''C05 violation: for a hierarchy that mixes a datetime level with a non-datetime level (the
normal case: (ticker, date)), the label tuples presented by the 2-D values array, by
reversed() and by integer extraction ih[i] / ih.iloc[i] are NOT the tuples presented by
iteration and held by the tree: the datetime64 component is coerced to datetime.date /
datetime.datetime / int. Membership and label-to-position lookup then disagree with those
views: the i-th label obtained that way is not a member and/or cannot be looked up
(KeyError / AssertionError / ValueError), e.g. series[series.index[0]] raises.

Cause: IndexHierarchy.values, __reversed__ and _extract_iloc(int)
(static_frame/core/index_hierarchy.py) go through TypeBlocks row extraction, which builds an
object row array; NumPy converts datetime64 elements to datetime.date/datetime/int. __iter__
goes through IndexLevel.__iter__ and keeps np.datetime64. Lookup of the coerced tuple then
fails in IndexLevel.leaf_loc_to_iloc (static_frame/core/index_level.py): for a plain Index of
datetime64 dtype the hash differs (KeyError); for typed levels of another unit than the Python
object's natural unit, Index._loc_to_iloc returns a Boolean array and the
`assert isinstance(offset, INT_TYPES)` fires; for nanosecond levels the label is an int.
'''
import sys
sys.path.insert(0, sys.argv[1])
import numpy as np
import static_frame as sf
D = np.datetime64

bad = []

def audit(ih, tag):
    n = len(ih)
    from_iter = list(ih)
    views = {
        'iteration': from_iter,
        'reversed()': list(reversed(ih))[::-1],
        '2-D values rows': [tuple(r) for r in ih.values],
        'ih[i]': [ih[i] for i in range(n)],
        }
    print(tag, '- level classes', [c.__name__ for c in ih.index_types.values])
    for name, labels in views.items():
        problems = []
        for i, label in enumerate(labels):
            try:
                member = label in ih
            except Exception as e:
                member = type(e).__name__
            try:
                pos = ih.loc_to_iloc(label)
            except Exception as e:
                pos = type(e).__name__
            if member is not True or not (isinstance(pos, (int, np.integer)) and pos == i):
                problems.append((label, member, pos))
        if problems:
            label, member, pos = problems[0]
            print(f'   {name}: {len(problems)}/{n} labels fail; e.g. {label!r}: in ih -> {member}, loc_to_iloc -> {pos}')
            bad.append((tag, name))
        else:
            print(f'   {name}: all {n} labels are members and look up to their position')

# (a) the everyday route: set_index_hierarchy on (str, datetime64[D]) columns
f = sf.Frame.from_records(
        [('a', D('2020-01-01'), 1.5), ('a', D('2020-01-02'), 2.5), ('b', D('2020-01-01'), 3.5)],
        columns=('ticker', 'date', 'px'))
g = f.set_index_hierarchy(('ticker', 'date'), drop=True)
audit(g.index, '(a) Frame.set_index_hierarchy((ticker, date))')
s = g['px']
try:
    s[s.index[0]]
except KeyError as e:
    print('   s[s.index[0]] raised KeyError', e)
    bad.append(('(a)', 'Series lookup of its own first label'))

# (b) typed month level
ih = sf.IndexHierarchy.from_labels(
        [('a', '2020-01'), ('a', '2020-02'), ('b', '2020-01')],
        index_constructors=(sf.Index, sf.IndexYearMonth))
audit(ih, '(b) from_labels with IndexYearMonth level')

# (c) typed nanosecond level, grow-only, after an append
go = sf.IndexHierarchyGO.from_labels(
        [('a', '2020-01-01T01:01:01.000000001')],
        index_constructors=(sf.IndexGO, sf.IndexNanosecondGO))
go.append(('a', '2020-01-01T01:01:01.000000002'))
audit(go, '(c) IndexHierarchyGO with IndexNanosecondGO level after append')

if bad:
    print('VIOLATION:', len(bad), 'view(s) disagree with membership / lookup')
    sys.exit(1)
print('no violation')
sys.exit(0)
