'''C05 violation: when the innermost indices of an IndexHierarchy are auto-integer indices
(the default index of every Series / Frame, which is what Series.from_concat_items,
Frame.from_concat_items, IndexHierarchy.from_index_items and IndexHierarchy.from_product
receive and keep), a per-level label or list selector at the innermost depth is not checked
against the sub-tree it is applied to: the label is just added to the sub-tree offset. Rows of
a *different* parent (or positions past the end of the index) are selected.

Cause: Index._loc_to_iloc (static_frame/core/index.py), branch
`if self._map is None and offset is not None` returns `key + offset` /
`[k + offset for k in key]` / `slice_to_inclusive_slice(key, offset)` without any bounds
check and without raising KeyError; IndexLevel.loc_to_iloc (static_frame/core/index_level.py)
relies on that KeyError (and on partial_selection) to skip sub-trees that do not hold the label.
'''
import sys
sys.path.insert(0, sys.argv[1])
import numpy as np
import static_frame as sf
from static_frame import HLoc

bad = []

s = sf.Series.from_concat_items((
        ('a', sf.Series((10, 20))),
        ('b', sf.Series((30, 40, 50))),
        ))
labels = [tuple(t) for t in s.index]
print('Series.from_concat_items of two default-indexed Series; index labels:')
print('  ', labels)

def brute(pred):
    return [i for i, t in enumerate(labels) if pred(t)]

def positions(key):
    r = s.index.loc_to_iloc(key)
    n = len(labels)
    if isinstance(r, (int, np.integer)): return [int(r)]
    if isinstance(r, slice): return list(range(*r.indices(n)))
    return [int(x) for x in r]

cases = (
    ('HLoc[:, 2]', HLoc[:, 2], brute(lambda t: t[1] == 2)),
    ('HLoc[:, [2]]', HLoc[:, [2]], brute(lambda t: t[1] == 2)),
    ("HLoc[['b', 'a'], 2]", HLoc[['b', 'a'], 2], brute(lambda t: t[1] == 2)),
    ("HLoc['a', [0, 2]]", HLoc['a', [0, 2]], brute(lambda t: t[0] == 'a' and t[1] in (0, 2))),
    ("HLoc['a', 0:2]", HLoc['a', 0:2], brute(lambda t: t[0] == 'a' and 0 <= t[1] <= 2)),
    )
for name, key, want in cases:
    got = positions(key)
    got_labels = [labels[i] if i < len(labels) else '<out of range>' for i in got]
    ok = got == want
    print(f'{name}: expected {[labels[i] for i in want]}  observed {got_labels}', '' if ok else '  <-- WRONG')
    if not ok:
        bad.append(name)

# through the Series
try:
    r = s[HLoc[:, 2]]
    print('s[HLoc[:, 2]] values:', r.values.tolist(), 'expected [50]')
    if r.values.tolist() != [50]:
        bad.append('Series selection')
except Exception as e:
    print('s[HLoc[:, 2]] raised', type(e).__name__, e)
    bad.append('Series selection raises')

# through a Frame built by from_concat_items
f1 = sf.Frame.from_records([(1, 2), (3, 4)], columns=('p', 'q'))
f2 = sf.Frame.from_records([(5, 6), (7, 8), (9, 10)], columns=('p', 'q'))
f = sf.Frame.from_concat_items((('a', f1), ('b', f2)), axis=0)
r = f.loc[HLoc[:, 2]]
rows = [tuple(t) for t in r.index] if isinstance(r, sf.Frame) else [r.name]
print('Frame.from_concat_items(...).loc[HLoc[:, 2]] rows:', rows, "expected [('b', 2)]")
if rows != [('b', 2)]:
    bad.append('Frame selection')

# from_product given the default index of a Series
ih = sf.IndexHierarchy.from_product(('a', 'b'), sf.Series((1, 2, 3)).index)
got = ih.loc_to_iloc(HLoc['a', [0, 5]])
print("from_product(('a','b'), <auto index of len 3>).loc_to_iloc(HLoc['a', [0, 5]]) ->", got,
      "expected [0] (('a', 5) does not exist; position 5 is ('b', 2))")
if list(got) != [0]:
    bad.append('from_product auto inner')

if bad:
    print('VIOLATION:', bad)
    sys.exit(1)
print('no violation')
sys.exit(0)
