'''C19 violation 1: a Batch that holds Series (after selecting one column, one row, or after a reduction) refuses most of its own operations, although the same operation applied to that label's Series works.

Statement contradicted: "A Batch operation (selection, operator, reduction, function application, ...) yields, for every label, the result of applying that operation to that label's Frame" / "all chained Batch operations of bounded depth".
'''
import sys
sys.path.insert(0, sys.argv[1])
import numpy as np
import static_frame as sf
assert sf.__file__.startswith(sys.argv[1]), sf.__file__

f1 = sf.Frame.from_dict(dict(a=(1, 2, 2), b=(3.5, 4.5, 1.5)), index=('x', 'y', 'z'), name='f1')
f2 = sf.Frame.from_dict(dict(a=(7, 7, 9), b=(6.5, 0.5, 2.5)), index=('x', 'y', 'z'), name='f2')
frames = (f1, f2)

cases = (
    ("batch['a'].count()", lambda b: b['a'].count(), lambda f: f['a'].count()),
    ("batch['a'].unique()", lambda b: b['a'].unique(), lambda f: f['a'].unique()),
    ("batch['a'].duplicated()", lambda b: b['a'].duplicated(), lambda f: f['a'].duplicated()),
    ("batch['a'].drop_duplicated()", lambda b: b['a'].drop_duplicated(), lambda f: f['a'].drop_duplicated()),
    ("batch['b'].shift(1)", lambda b: b['b'].shift(1), lambda f: f['b'].shift(1)),
    ("batch['b'].roll(1)", lambda b: b['b'].roll(1), lambda f: f['b'].roll(1)),
    ("batch['b'].clip(lower=2)", lambda b: b['b'].clip(lower=2), lambda f: f['b'].clip(lower=2)),
    ("batch['b'].sample(2, seed=1)", lambda b: b['b'].sample(2, seed=1), lambda f: f['b'].sample(2, seed=1)),
    ("batch['b'].loc_max()", lambda b: b['b'].loc_max(), lambda f: f['b'].loc_max()),
    ("batch['b'].iloc_min()", lambda b: b['b'].iloc_min(), lambda f: f['b'].iloc_min()),
    ("batch['b'].sort_values()", lambda b: b['b'].sort_values(), lambda f: f['b'].sort_values()),
    ("batch['b'].drop['y']", lambda b: b['b'].drop['y'], lambda f: f['b'].drop['y']),
    ("batch.sum().count()", lambda b: b.sum().count(), lambda f: f.sum().count()),
    ("batch.iloc[0].shift(1)", lambda b: b.iloc[0].shift(1), lambda f: f.iloc[0].shift(1)),
    )

def norm(x):
    if isinstance(x, sf.Series):
        return ('Series', x.index.values.tolist(), [repr(v) for v in x.values.tolist()])
    if isinstance(x, np.ndarray):
        return ('Series', list(range(len(x))), [repr(v) for v in x.tolist()]) # arrays are delivered as Series
    return ('Series', [None], [repr(np.asarray(x).tolist())]) # elements are delivered as one-element Series

bad = 0
for name, bop, fop in cases:
    expected = {f.name: norm(fop(f)) for f in frames}
    try:
        observed = {k: norm(v) for k, v in bop(sf.Batch.from_frames(frames)).items()}
    except Exception as e:
        observed = f'{type(e).__name__}: {e}'
    if observed != expected:
        bad += 1
        print(f'{name}\n   expected: {expected}\n   observed: {observed}')

if bad:
    print(f'VIOLATION: {bad} of {len(cases)} chained operations on a Batch of Series fail')
    sys.exit(1)
print('OK')
