'''C19 violation 6: the store exporters of a Batch do not export its results when these are 1D (after a reduction or a one-column selection): to_zip_csv / to_zip_tsv / to_sqlite raise AttributeError, and what to_zip_pickle writes is read back as (n, 1) Frames, not as the Series the Batch held.

Statement contradicted: "... and exporting it concatenates exactly those results."
'''
import sys, os
sys.path.insert(0, sys.argv[1])
import numpy as np
import static_frame as sf
assert sf.__file__.startswith(sys.argv[1]), sf.__file__

f1 = sf.Frame.from_dict(dict(a=(1, 2), b=(3, 4)), index=('x', 'y'), name='f1')
f2 = sf.Frame.from_dict(dict(a=(5, 6), b=(7, 8)), index=('x', 'y'), name='f2')
frames = (f1, f2)

def describe(x):
    return (type(x).__name__, x.shape, x.values.tolist())

expected = {f.name: describe(f.sum()) for f in frames}
print('batch.sum() holds:', {k: describe(v) for k, v in sf.Batch.from_frames(frames).sum().items()})

bad = 0
for fmt, ext in (('zip_pickle', '.zip'), ('zip_csv', '.zip'), ('sqlite', '.sqlite')):
    fp = f'/dev/shm/v5_{os.getpid()}{ext}'
    try:
        getattr(sf.Batch.from_frames(frames).sum(), f'to_{fmt}')(fp)
        observed = {k: describe(v) for k, v in getattr(sf.Batch, f'from_{fmt}')(fp).items()}
    except Exception as e:
        observed = f'{type(e).__name__}: {e}'
    finally:
        if os.path.exists(fp):
            os.remove(fp)
    ok = observed == expected
    print(f'to_{fmt} and reopening\n   expected: {expected}\n   observed: {observed}')
    if not ok:
        bad += 1
if bad:
    print(f'VIOLATION: {bad} store exporters do not round-trip the 1D results of a Batch')
    sys.exit(1)
print('OK')
