'''C19 violation 2: every Quilt exporter except to_zip_pickle fails with AttributeError unless a config is given explicitly.

Statement contradicted: "A Quilt over a Bus behaves, for ... export, exactly like ..." (the exporters are public methods of Quilt; Bus and Batch with the same call work).
'''
import sys, os
sys.path.insert(0, sys.argv[1])
import numpy as np
import static_frame as sf
assert sf.__file__.startswith(sys.argv[1]), sf.__file__

f1 = sf.Frame.from_dict(dict(a=(1, 2), b=(3, 4)), index=('x', 'y'), name='f1')
f2 = sf.Frame.from_dict(dict(a=(5, 6), b=(7, 8)), index=('p', 'q'), name='f2')
bus = sf.Bus.from_frames((f1, f2))
quilt = sf.Quilt(bus, retain_labels=False)

bad = 0
for fmt, ext in (('zip_csv', '.zip'), ('zip_tsv', '.zip'), ('sqlite', '.sqlite'), ('zip_pickle', '.zip')):
    fp_b = f'/dev/shm/v2_bus_{os.getpid()}{ext}'
    fp_q = f'/dev/shm/v2_quilt_{os.getpid()}{ext}'
    try:
        getattr(bus, f'to_{fmt}')(fp_b)
        expected = sorted(getattr(sf.Bus, f'from_{fmt}')(fp_b).index.values.tolist())
        try:
            getattr(quilt, f'to_{fmt}')(fp_q)
            observed = sorted(getattr(sf.Bus, f'from_{fmt}')(fp_q).index.values.tolist())
        except Exception as e:
            observed = f'{type(e).__name__}: {e}'
    finally:
        for fp in (fp_b, fp_q):
            if os.path.exists(fp):
                os.remove(fp)
    status = 'ok' if observed == expected else 'DIFFERENT'
    print(f'to_{fmt}: expected a store with labels {expected} (as Bus.to_{fmt} writes); observed {observed} -> {status}')
    if observed != expected:
        bad += 1

if bad:
    print(f'VIOLATION: {bad} Quilt exporters fail without an explicit config')
    sys.exit(1)
print('OK')
