'''C19 violation 4: Batch.to_frame() raises ErrorInitIndexLevel as soon as one of the 2D results has no rows (axis 0) / no columns (axis 1), e.g. after a per-Frame filter that matches nothing in one Frame. The results themselves (Batch.items()) are right; only the exporter fails.

Statement contradicted: "... and exporting it concatenates exactly those results."
(Related to, but not the same path as, the known refusal of a Quilt over zero-length members: here no Quilt is involved, the trigger is an ordinary intermediate result, and Frame.from_concat of the same Frames works.)
'''
import sys
sys.path.insert(0, sys.argv[1])
import numpy as np
import static_frame as sf
assert sf.__file__.startswith(sys.argv[1]), sf.__file__

f1 = sf.Frame.from_dict(dict(a=(1, 2, 3), b=(30, 40, 50)), index=('x', 'y', 'z'), name='f1')
f2 = sf.Frame.from_dict(dict(a=(4, 5, 6), b=(5, 6, 7)), index=('x', 'y', 'z'), name='f2')
frames = (f1, f2)

bad = 0

# keep the rows whose 'b' exceeds 10: none in f2
def big(f):
    return f.loc[f['b'] > 10]

results = dict(sf.Batch.from_frames(frames).apply(big).items())
print('results held by the Batch:', {k: (v.shape, v.index.values.tolist()) for k, v in results.items()})

expected_index = [('f1', 'x'), ('f1', 'y'), ('f1', 'z')]
expected_values = [[1, 30], [2, 40], [3, 50]]
for name, op in (
        ('apply(filter).to_frame()', lambda b: b.apply(big).to_frame()),
        ('head(0) of one Frame .to_frame()', lambda b: b.apply_items(lambda l, f: f.head(0) if l == 'f2' else f).to_frame()),
        ):
    try:
        post = op(sf.Batch.from_frames(frames))
        observed = ([tuple(x) for x in post.index.values.tolist()], post.values.tolist())
    except Exception as e:
        observed = f'{type(e).__name__}: {e}'
    print(f'{name}\n   expected: {(expected_index, expected_values)}\n   observed: {observed}')
    if observed != (expected_index, expected_values):
        bad += 1

# axis 1: one result without columns
try:
    post = sf.Batch.from_frames(frames).apply_items(lambda l, f: f.iloc[:, :0] if l == 'f1' else f).to_frame(axis=1)
    observed = ([tuple(x) for x in post.columns.values.tolist()], post.values.tolist())
except Exception as e:
    observed = f'{type(e).__name__}: {e}'
expected = ([('f2', 'a'), ('f2', 'b')], [[4, 5], [5, 6], [6, 7]])
print(f'to_frame(axis=1) with one result without columns\n   expected: {expected}\n   observed: {observed}')
if observed != expected:
    bad += 1

if bad:
    print(f'VIOLATION: Batch.to_frame cannot concatenate results when one of them is empty ({bad} cases)')
    sys.exit(1)
print('OK')
