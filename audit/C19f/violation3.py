'''C19 violation 3: len(quilt) (and reversed(quilt)) raise TypeError; the concatenated Frame answers with its number of rows (and its column labels in reverse).

Statement contradicted: "A Quilt over a Bus behaves, for shape, labels, ... exactly like the single Frame obtained by concatenating the Bus's Frames".
'''
import sys
sys.path.insert(0, sys.argv[1])
import numpy as np
import static_frame as sf
assert sf.__file__.startswith(sys.argv[1]), sf.__file__

f1 = sf.Frame.from_dict(dict(a=(1, 2), b=(3, 4)), index=('x', 'y'), name='f1')
f2 = sf.Frame.from_dict(dict(a=(5, 6, 7), b=(7, 8, 9)), index=('p', 'q', 'r'), name='f2')
ref = sf.Frame.from_concat((f1, f2))
quilt = sf.Quilt(sf.Bus.from_frames((f1, f2)), retain_labels=False)

bad = 0
for name, func in (('len', len), ('reversed', lambda x: list(reversed(x)))):
    expected = func(ref)
    try:
        observed = func(quilt)
    except Exception as e:
        observed = f'{type(e).__name__}: {e}'
    print(f'{name}(quilt): expected {expected!r}; observed {observed!r}')
    if observed != expected:
        bad += 1
print(f'(quilt.shape is {quilt.shape})')
if bad:
    print('VIOLATION: Quilt does not implement the length / reverse iteration of the Frame it stands for')
    sys.exit(1)
print('OK')
