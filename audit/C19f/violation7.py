'''C19 violation 7: Batch.rename(None) does not clear the name (the derived Batch falls back to the old name), unlike Frame/Series/Bus.rename(None); as a consequence the Frame exported by to_frame() carries a name that was removed.

Statement contradicted (weakly): the exporters of a Batch deliver exactly what the Batch holds; rename is one of the public operations of Batch.
'''
import sys
sys.path.insert(0, sys.argv[1])
import numpy as np
import static_frame as sf
assert sf.__file__.startswith(sys.argv[1]), sf.__file__

f1 = sf.Frame.from_dict(dict(a=(1, 2), b=(3, 4)), index=('x', 'y'), name='f1')
f2 = sf.Frame.from_dict(dict(a=(5, 6), b=(7, 8)), index=('x', 'y'), name='f2')

bad = 0
b = sf.Batch.from_frames((f1, f2), name='old')
observed = b.rename(None).name
print(f"Batch(name='old').rename(None).name: expected None (Frame: {f1.rename(None).name!r}, Bus: {sf.Bus.from_frames((f1, f2), name='old').rename(None).name!r}); observed {observed!r}")
bad += observed is not None

b = sf.Batch.from_frames((f1, f2), name='old')
observed = b.rename(None).sum().to_frame().name
print(f"Batch(name='old').rename(None).sum().to_frame().name: expected None; observed {observed!r}")
bad += observed is not None

b = sf.Batch.from_frames((f1, f2), name='old')
observed = b.rename('new').name
print(f"Batch(name='old').rename('new').name: expected 'new'; observed {observed!r}")
bad += observed != 'new'

if bad:
    print('VIOLATION: a Batch cannot be renamed to None')
    sys.exit(1)
print('OK')
