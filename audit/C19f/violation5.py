'''C19 violation 5: Quilt.equals, a public method (listed in Quilt.interface), raises NotImplementedError for every argument.

Statement contradicted: "A Quilt over a Bus behaves ... exactly like the single Frame obtained by concatenating the Bus's Frames" (equals-like comparisons).
'''
import sys
sys.path.insert(0, sys.argv[1])
import numpy as np
import static_frame as sf
assert sf.__file__.startswith(sys.argv[1]), sf.__file__

f1 = sf.Frame.from_dict(dict(a=(1, 2), b=(3, 4)), index=('x', 'y'), name='f1')
f2 = sf.Frame.from_dict(dict(a=(5, 6, 7), b=(7, 8, 9)), index=('p', 'q', 'r'), name='f2')
ref = sf.Frame.from_concat((f1, f2))
q1 = sf.Quilt(sf.Bus.from_frames((f1, f2)), retain_labels=False)
q2 = sf.Quilt(sf.Bus.from_frames((f1, f2)), retain_labels=False)
q3 = sf.Quilt(sf.Bus.from_frames((f1, f2 * 2)), retain_labels=False)

bad = 0
for name, func, expected in (
        ('q1.equals(q1)', lambda: q1.equals(q1), True),
        ('q1.equals(q2) (same content)', lambda: q1.equals(q2), True),
        ('q1.equals(q3) (different values)', lambda: q1.equals(q3), False),
        ):
    try:
        observed = func()
    except Exception as e:
        observed = f'{type(e).__name__}: {e}'
    print(f'{name}: expected {expected} (as ref.equals gives: {ref.equals(ref) if expected else ref.equals(sf.Frame.from_concat((f1, f2 * 2)))}); observed {observed}')
    if observed != expected:
        bad += 1
if bad:
    print('VIOLATION: Quilt.equals is exposed but not implemented')
    sys.exit(1)
print('OK')
