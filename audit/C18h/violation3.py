'''C18 violation 3: Batch.apply_except / apply_items_except on a process pool does not silence the named exception when it is a
user exception whose constructor takes other arguments than Exception.args (a very common way to write exceptions): the
sequential Batch and the thread-pool Batch drop the failing label and return the rest, the process-pool Batch raises
BrokenProcessPool and returns nothing.

Statement sentence contradicted: "Function application through worker pools (... Batch with max_workers ...) returns results equal
to the sequential form: same labels, same order ... for every worker count, chunk size, thread or process choice".
(Not one of the excluded items: nothing fails to pickle, exception=Exception is not used, chunksize is 1.)

Cause: static_frame/core/batch.py _apply_pool_except (lines 435-449) lets the worker's exception travel back through the executor:
the exception pickles in the worker as (cls, self.args) but cannot be rebuilt in the parent (cls(*args) has the wrong arity), the
executor's result reader dies and every pending future gets BrokenProcessPool, which line 444 (correctly) never silences. The
function is never wrapped in the worker (call_func / call_func_items, lines 67-75) so that the match against `exception`
could be done where the exception object exists.
'''
import sys
ROOT = sys.argv[1]
sys.path.insert(0, ROOT)
import numpy as np
import static_frame as sf
assert sf.__file__.startswith(ROOT), sf.__file__


class MissingColumn(Exception):
    def __init__(self, frame_name, column):
        super().__init__(f'{frame_name} has no column {column}')
        self.frame_name = frame_name
        self.column = column


def total_b(f):
    if 'b' not in f.columns:
        raise MissingColumn(f.name, 'b')
    return f['b'].sum()

def total_b_items(label, f):
    return total_b(f)


def build():
    f1 = sf.Frame.from_dict(dict(a=(1, 2), b=(3, 4)), name='f1')
    f2 = sf.Frame.from_dict(dict(a=(1, 2), c=(5, 6)), name='f2')
    f3 = sf.Frame.from_dict(dict(b=(10, 20), c=(7, 8)), name='f3')
    return [(f.name, f) for f in (f1, f2, f3)]


def outcome(f):
    try:
        return f().to_frame().to_pairs()
    except Exception as e:
        return f'{type(e).__name__}: {str(e)[:90]}'


def main():
    bad = 0
    for meth, func in (('apply_except', total_b), ('apply_items_except', total_b_items)):
        seq = outcome(lambda: getattr(sf.Batch(build()), meth)(func, MissingColumn))
        thr = outcome(lambda: getattr(sf.Batch(build(), max_workers=2, use_threads=True), meth)(func, MissingColumn))
        prc = outcome(lambda: getattr(sf.Batch(build(), max_workers=2), meth)(func, MissingColumn))
        print(f'Batch.{meth}(func, MissingColumn)')
        print('   expected (sequential):     ', seq)
        print('   observed (thread pool):    ', thr)
        print('   observed (process pool):   ', prc)
        if thr != seq or prc != seq:
            bad += 1
    if bad:
        print('VIOLATION: the process-pool Batch raises where the sequential Batch returns the surviving labels')
        sys.exit(1)
    print('OK')
    sys.exit(0)

if __name__ == '__main__':
    main()
