'''C18 violation 2: apply_pool(use_threads=False) gives results different from apply (and from apply_pool with threads) when the
function selects, tests or de-duplicates by a NaN label / NaN object value of the Series or Frame it is given.

Statement sentence contradicted: "Function application through worker pools (apply_pool on any iterator interface ...) returns
results equal to the sequential form ... for every worker count, chunk size, thread or process choice and every completion order".

Cause: NaN is found in the label map of an Index (and in the dict used by ufunc_unique / _array_to_duplicated_hashable for object
arrays, static_frame/core/util.py) by object identity only. The values handed to worker processes are pickled; the unpickled Index
(static_frame/core/index.py __setstate__ keeps the unpickled map) holds a new float object for NaN that np.nan in the worker does
not match: loc[np.nan] raises KeyError, `np.nan in index` is False, reindex silently gives the fill value, unique() keeps every NaN.
'''
import sys
ROOT = sys.argv[1]
sys.path.insert(0, ROOT)
import numpy as np
import static_frame as sf
assert sf.__file__.startswith(ROOT), sf.__file__


def missing_count(s):
    '''Number of observations without a category: the value at the NaN label, 0 if there is none.'''
    return s.reindex(sf.Index([np.nan, 'other'], dtype=object), fill_value=0).values[0]

def has_missing(s):
    return np.nan in s.index

def at_missing(s):
    return s.loc[np.nan]

def n_distinct(s):
    return len(s.unique())

CASES = []

# counts per category (object labels as made by a group-by on an object column with missing values), one column per year
counts = sf.Frame.from_records([(3, 4), (5, 1), (7, 2)], index=sf.Index(['a', np.nan, 'b'], dtype=object), columns=(2020, 2021))
CASES.append(('Frame(object index with NaN).iter_series().apply*(missing_count)', lambda: counts.iter_series(), missing_count))
CASES.append(('Frame(object index with NaN).iter_series().apply*(has_missing)', lambda: counts.iter_series(), has_missing))
CASES.append(('Frame(object index with NaN).iter_series().apply*(at_missing)', lambda: counts.iter_series(), at_missing))
# float labels
countsf = sf.Frame.from_records([(3, 4), (5, 1), (7, 2)], index=[1.5, np.nan, 2.5], columns=(2020, 2021))
CASES.append(('Frame(float index with NaN).iter_series().apply*(at_missing)', lambda: countsf.iter_series(), at_missing))
# object values
answers = sf.Frame.from_records([('x', np.nan), ('x', np.nan), ('y', 'b'), ('y', np.nan), ('x', 'a')], columns=('key', 'answer'))
CASES.append(('Frame(object column with NaN).iter_series().apply*(n_distinct)', lambda: answers.iter_series(), n_distinct))
CASES.append(('Frame.iter_group_items(key).apply*(n_distinct of answer)', lambda: answers.iter_group('key'), lambda f: len(f['answer'].unique())))


def outcome(f):
    try:
        r = f()
        return [('nan' if v != v else v) for v in r.values.tolist()]
    except Exception as e:
        return f'{type(e).__name__}: {e}'

def nd(f):
    return len(f['answer'].unique())

def main():
    bad = 0
    for name, it, func in CASES:
        if func.__name__ == '<lambda>':
            func = nd
        seq = outcome(lambda: it().apply(func))
        thr = outcome(lambda: it().apply_pool(func, max_workers=2, use_threads=True))
        prc = outcome(lambda: it().apply_pool(func, max_workers=2, chunksize=1, use_threads=False))
        print(name)
        print('   expected (apply):                    ', seq)
        print('   observed apply_pool(use_threads=True): ', thr)
        print('   observed apply_pool(use_threads=False):', prc)
        if prc != seq or thr != seq:
            bad += 1
    if bad:
        print(f'VIOLATION: {bad} of {len(CASES)} calls differ between the pool and the sequential form')
        sys.exit(1)
    print('OK')
    sys.exit(0)

if __name__ == '__main__':
    main()
