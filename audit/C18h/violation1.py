'''C18 violation 1: Batch with max_workers on a process pool (the default, use_threads=False) gives a different, silently wrong
answer than the sequential Batch for duplicated() / drop_duplicated() when an object column holds NaN.

Statement sentence contradicted: "Function application through worker pools (... Batch with max_workers ...) returns results equal
to the sequential form: same labels, same order, ... for every worker count, chunk size, thread or process choice ..."

Cause: duplicate detection on object arrays keys a dict on the elements (static_frame/core/util.py, _array_to_duplicated_hashable,
ufunc_unique), so NaN matches NaN only by object identity (all np.nan references are one object). A Frame delivered to a worker
process is pickled, every NaN becomes a distinct float object, and no NaN row is a duplicate any more.
'''
import sys
ROOT = sys.argv[1]
sys.path.insert(0, ROOT)
import numpy as np
import static_frame as sf
assert sf.__file__.startswith(ROOT), sf.__file__


def build():
    # e.g. a survey column with missing answers, as made by Frame.from_records / from_pandas / fillna on object data
    f1 = sf.Frame.from_records(
            [('x', np.nan), ('x', np.nan), ('y', 'b'), ('y', 'b'), ('z', np.nan)],
            columns=('key', 'answer'), name='f1')
    f2 = sf.Frame.from_records(
            [('p', 'a'), ('q', np.nan), ('q', np.nan)],
            columns=('key', 'answer'), name='f2')
    return [(f.name, f) for f in (f1, f2)]


def show(frame):
    return [tuple('nan' if v != v else v for v in row) for row in frame.reset_index().iter_tuple(axis=1, constructor=tuple)] \
            if hasattr(frame, 'reset_index') else frame

def run(**kw):
    dd = sf.Batch(build(), **kw).drop_duplicated().to_frame()
    du = sf.Batch(build(), **kw).duplicated().to_frame(fill_value=None)
    return ([tuple('nan' if v != v else v for v in row) for row in dd.iter_tuple(axis=1, constructor=tuple)],
            [tuple(l) for l in dd.index],
            du.values.tolist())


def main():
    assert all(f.dtypes['answer'] == object for _, f in build())
    seq = run()
    bad = 0
    for kw in (dict(max_workers=2), dict(max_workers=1, chunksize=2), dict(max_workers=3, use_threads=False)):
        par = run(**kw)
        same = par == seq
        print(f'Batch({kw}).drop_duplicated() / .duplicated()')
        print('  expected (sequential): rows', seq[0], 'labels', seq[1], 'duplicated', seq[2])
        print('  observed (pool):       rows', par[0], 'labels', par[1], 'duplicated', par[2])
        print('  ->', 'equal' if same else 'DIFFERENT')
        bad += not same
    # the thread pool, for reference
    thr = run(max_workers=2, use_threads=True)
    print('thread pool equal to sequential:', thr == seq)
    if bad:
        print('VIOLATION: process-pool Batch differs from the sequential Batch')
        sys.exit(1)
    print('OK')
    sys.exit(0)

if __name__ == '__main__':
    main()
