'''
C19 violation 1: Batch.to_frame refuses Frames that carry a hierarchical index (axis 0) or
hierarchical columns (axis 1) instead of concatenating the per-label results.

Sentence contradicted: "A Batch operation ... yields, for every label, the result of applying that
operation to that label's Frame, and exporting it concatenates exactly those results."

usage: violation1.py <library root>; exit 1 while the violation is present, 0 otherwise.
'''
import sys
ROOT = sys.argv[1]
sys.path.insert(0, ROOT)
import numpy as np
import static_frame as sf
assert sf.__file__.startswith(ROOT), sf.__file__

ih = sf.IndexHierarchy.from_labels([('A', 0), ('A', 1), ('B', 2)])
f1 = sf.Frame(np.arange(6).reshape(3, 2), index=ih, columns=('a', 'b'), name='f1')
f2 = sf.Frame(np.arange(6).reshape(3, 2) + 10, index=ih, columns=('a', 'b'), name='f2')

bad = 0
for title, frames, axis in (
        ('hierarchical index, axis 0', (f1, f2), 0),
        ('hierarchical columns, axis 1', (f1.T.rename('f1'), f2.T.rename('f2')), 1),
        ):
    # the per-label results of a 2-D operation
    results = [(f.name, f.head(2)) for f in frames]
    # expected: those results, in label order, under the label as an added outer level
    exp_values = np.concatenate([r.values for _, r in results], axis=axis).tolist()
    exp_labels = [(label,) + tuple(inner) for label, r in results
            for inner in (r.index if axis == 0 else r.columns).values.tolist()]
    try:
        post = sf.Batch.from_frames(frames).head(2).to_frame(axis=axis)
        obs_values = post.values.tolist()
        obs_labels = [tuple(x) for x in (post.index if axis == 0 else post.columns).values.tolist()]
        observed = (obs_labels, obs_values)
    except Exception as e:
        observed = repr(e)
    print(title)
    print('  expected', (exp_labels, exp_values))
    print('  observed', observed)
    if observed != (exp_labels, exp_values):
        bad += 1

# control: the same Frames with a flat index export fine
flat = [f.relabel(index=('x', 'y', 'z')) for f in (f1, f2)]
post = sf.Batch.from_frames(flat).head(2).to_frame()
assert post.values.tolist() == [[0, 1], [2, 3], [10, 11], [12, 13]], post

if bad:
    print('VIOLATION PRESENT (%d of 2)' % bad)
    sys.exit(1)
print('no violation')
sys.exit(0)
