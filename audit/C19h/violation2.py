'''
C19 violation 2: exporting a store-backed Batch to the path it was read from. The Batch reads its
store lazily (labels included), the exporter truncates / removes the target before the first item is
pulled, so nothing (SQLite: silently; zip: BadZipFile after the archive was emptied) is exported and the
source data is gone. Bus and Quilt notice the same situation (StoreFileMutation); Batch does not.

Sentence contradicted: "A Batch operation ... yields, for every label, the result of applying that
operation to that label's Frame, and exporting it concatenates exactly those results."

usage: violation2.py <library root>; exit 1 while the violation is present, 0 otherwise.
'''
import sys
ROOT = sys.argv[1]
sys.path.insert(0, ROOT)
import os
import tempfile
import shutil
import numpy as np
import static_frame as sf
assert sf.__file__.startswith(ROOT), sf.__file__

f1 = sf.Frame.from_records([(1, 2.5), (3, 4.5), (5, 0.5)], columns=('a', 'b'), index=('p', 'q', 'r'), name='f1')
f2 = sf.Frame.from_records([(7, 8.5), (9, 1.5)], columns=('a', 'b'), index=('p', 'q'), name='f2')
expected = [('f1', (1, 2)), ('f2', (1, 2))] # head(1) of every Frame

base = '/dev/shm' if os.path.isdir('/dev/shm') else None
tmp = tempfile.mkdtemp(prefix='c19v2_', dir=base)
bad = 0
try:
    for kind, ext in (('sqlite', 'sqlite'), ('zip_pickle', 'zip'), ('zip_csv', 'zip')):
        fp = os.path.join(tmp, 'store_%s.%s' % (kind, ext))
        getattr(sf.Bus.from_frames((f1, f2)), 'to_' + kind)(fp)
        config = sf.StoreConfig(index_depth=1)
        raised = None
        try:
            batch = getattr(sf.Batch, 'from_' + kind)(fp, config=config)
            getattr(batch.head(1), 'to_' + kind)(fp) # read, transform, write back
        except Exception as e:
            raised = repr(e)
        try:
            after = [(label, f.shape) for label, f in getattr(sf.Bus, 'from_' + kind)(fp, config=config).items()]
        except Exception as e:
            after = repr(e)
        print(kind)
        print('  expected store content', expected, '(or a refusal that leaves the store intact)')
        print('  exporter raised       ', raised)
        print('  observed store content', after)
        intact = after == [('f1', (3, 2)), ('f2', (2, 2))]
        if after != expected and not (raised is not None and intact):
            bad += 1
finally:
    shutil.rmtree(tmp, ignore_errors=True)

if bad:
    print('VIOLATION PRESENT (%d of 3 stores)' % bad)
    sys.exit(1)
print('no violation')
sys.exit(0)
