'''C09 audit, violation 2: on hierarchical (depth 2) columns, a plain string of two characters given as new column label is accepted and stored as a different label (one character per depth); the label given is not among the columns afterwards.

usage: violation2.py <library root>; exit 1 while the violation is present.
'''
import sys
sys.path.insert(0, sys.argv[1])
import numpy as np
import static_frame as sf
assert sf.__file__.startswith(sys.argv[1]), sf.__file__

problems = []

labels = [('A', 'x'), ('A', 'y')]
f = sf.FrameGO.from_records(((1, 2), (3, 4)),
        columns=sf.IndexHierarchy.from_labels(labels),
        index=('p', 'q'))

key = 'Az'
try:
    f[key] = (5, 6)
    accepted = True
except Exception as e:
    accepted = False
    print('rejected with', repr(e)[:100])

observed = [tuple(l) for l in f.columns]
print("FrameGO with columns [('A','x'), ('A','y')]; f['Az'] = (5, 6)")
print("   expected: rejected (a str is not a label of depth 2) and unchanged; or a column that can be found under the label given")
print('   observed:', 'accepted' if accepted else 'rejected', '; columns', observed, "; 'Az' in columns:", key in f.columns)

if accepted:
    found = key in f.columns
    if not found or observed[-1] != key:
        problems.append(('label stored differs from label given', key, observed[-1]))
else:
    if observed != labels or f.shape != (2, 2):
        problems.append(('rejected but changed', observed, f.shape))

# the same on the index alone, also with a str subclass of length == depth at depth 3
ih = sf.IndexHierarchyGO.from_labels([('A', 'x', '1')])
try:
    ih.append('Ay2')
    print("IndexHierarchyGO depth 3: append('Ay2') accepted; labels", [tuple(l) for l in ih])
    if 'Ay2' not in ih:
        problems.append(('IndexHierarchyGO.append', 'Ay2', [tuple(l) for l in ih][-1]))
except Exception as e:
    print("IndexHierarchyGO depth 3: append('Ay2') rejected", repr(e)[:80])

if problems:
    print('VIOLATION PRESENT', problems)
    sys.exit(1)
print('no violation')
sys.exit(0)
