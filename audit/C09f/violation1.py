'''C09 audit, violation 1: a hashable sequence (a range) given as new column label to FrameGO.__setitem__ / IndexGO.append is accepted, and leaves the container unusable (integer / auto-integer columns) or stores a different label (empty columns).

A plausible way to get there: ``f[range(3)] = 0`` written in the belief that it assigns three columns.

usage: violation1.py <library root>; exit 1 while the violation is present.
'''
import sys
sys.path.insert(0, sys.argv[1])
import numpy as np
import static_frame as sf
assert sf.__file__.startswith(sys.argv[1]), sf.__file__

problems = []

def usable(f):
    '''Read the frame in the usual ways; return the first failure.'''
    for name, fn in (
            ('columns.values', lambda: f.columns.values),
            ('repr', lambda: repr(f)),
            ('first column by label', lambda: f[next(iter(f.columns))]),
            ('to_frame', lambda: f.to_frame()),
            ('values', lambda: f.values),
            ('loc_to_iloc of every label', lambda: [f.columns.loc_to_iloc(l) for l in f.columns]),
            ):
        try:
            fn()
        except Exception as e:
            return name, repr(e)[:160]
    return None

#-------------------------------------------------------------------------------
# A: auto-integer columns
f = sf.FrameGO(np.arange(6).reshape(3, 2), index=('p', 'q', 'r'))
before = (f.shape, list(f.columns))
key = range(3)
try:
    f[key] = 0
    accepted = True
except Exception as e:
    accepted = False

print('A: FrameGO with columns [0, 1]; f[range(3)] = 0')
print('   expected: rejected and unchanged, or accepted with a usable frame holding the label range(0, 3)')
if accepted:
    failure = usable(f)
    print('   observed: accepted; shape', f.shape, '; first failing read:', failure)
    if failure:
        problems.append(('A', failure))
else:
    print('   observed: rejected;', (f.shape, list(f.columns)) == before and 'unchanged' or 'CHANGED')
    if (f.shape, list(f.columns)) != before:
        problems.append(('A', 'rejected but changed'))

#-------------------------------------------------------------------------------
# B: explicit integer labels on an IndexGO
ix = sf.IndexGO((10, 20))
try:
    ix.append(range(2))
    accepted = True
except Exception:
    accepted = False
print('B: IndexGO((10, 20)).append(range(2))')
print('   expected: rejected and unchanged, or accepted and readable')
if accepted:
    try:
        v = ix.values
        print('   observed: accepted; values', v)
    except Exception as e:
        print('   observed: accepted; .values (and len()) raise', repr(e)[:120])
        problems.append(('B', repr(e)[:120]))
else:
    print('   observed: rejected; labels', list(ix))
    if list(ix) != [10, 20]:
        problems.append(('B', 'rejected but changed'))

#-------------------------------------------------------------------------------
# C: empty columns: the label is stored as something else
f = sf.FrameGO(index=('p', 'q'))
try:
    f[range(3)] = 0
    accepted = True
except Exception:
    accepted = False
print('C: FrameGO without columns; f[range(3)] = 0')
print('   expected: rejected, or one column whose label is range(0, 3): columns.values.shape == (1,)')
if accepted:
    shape = f.columns.values.shape
    failure = usable(f)
    print('   observed: accepted; len(columns)', len(f.columns), '; columns.values.shape', shape,
            '; columns.values', f.columns.values.tolist(), '; first failing read:', failure)
    if shape != (1,) or failure:
        problems.append(('C', shape, failure))
else:
    print('   observed: rejected; shape', f.shape)
    if f.shape != (2, 0) or len(f.columns):
        problems.append(('C', 'rejected but changed'))

if problems:
    print('VIOLATION PRESENT', problems)
    sys.exit(1)
print('no violation')
sys.exit(0)
