'''C09 audit, violation 3: the first label appended to an empty IndexGO / given to a FrameGO without columns is accepted without a usable dtype when the label object has a ``dtype`` attribute that is not a NumPy dtype (a class such as numpy.ndarray, static_frame.Series, ...); the container cannot be read afterwards. On a non-empty index the same label is rejected.

usage: violation3.py <library root>; exit 1 while the violation is present.
'''
import sys
sys.path.insert(0, sys.argv[1])
import numpy as np
import static_frame as sf
assert sf.__file__.startswith(sys.argv[1]), sf.__file__

problems = []

# a table with one column per container type
f = sf.FrameGO(index=('ndim', 'mutable'))
print('FrameGO without columns; f[numpy.ndarray] = (2, True)')
print('   expected: rejected and unchanged; or accepted and readable (one column labelled with the class)')
try:
    f[np.ndarray] = (2, True)
    accepted = True
except Exception as e:
    accepted = False
    print('   observed: rejected', repr(e)[:100], '; shape', f.shape)
    if f.shape != (2, 0) or len(f.columns):
        problems.append('rejected but changed')

if accepted:
    failure = None
    for name, fn in (
            ('len(columns)', lambda: len(f.columns)),
            ('columns.values', lambda: f.columns.values),
            ('repr', lambda: repr(f)),
            ('column by label', lambda: f[np.ndarray]),
            ('to_frame', lambda: f.to_frame()),
            ):
        try:
            fn()
        except Exception as e:
            failure = (name, repr(e)[:140])
            break
    print('   observed: accepted; shape', f.shape, '; first failing read:', failure)
    if failure:
        problems.append(failure)
    # not even further growth repairs it
    try:
        f['other'] = 0
        len(f.columns)
    except Exception as e:
        print('   after a further f["other"] = 0:', repr(e)[:100])

ix = sf.IndexGO(())
try:
    ix.append(sf.Series)
    try:
        ix.values
    except Exception as e:
        print('IndexGO(()).append(sf.Series): accepted, .values raises', repr(e)[:100])
        problems.append(('IndexGO', repr(e)[:100]))
except Exception as e:
    print('IndexGO(()).append(sf.Series): rejected')

if problems:
    print('VIOLATION PRESENT', problems)
    sys.exit(1)
print('no violation')
sys.exit(0)
