'''C01 violation 3: iloc_searchsorted / loc_searchsorted (Series, Index, IndexDate, IndexHierarchy) return writeable arrays.'''
import sys, os
root = sys.argv[1] if len(sys.argv) > 1 else '.'
sys.path.insert(0, root)
import numpy as np
import static_frame as sf
assert os.path.abspath(sf.__file__).startswith(os.path.abspath(root)), sf.__file__

bad = []
def check(tag, array):
    ok = isinstance(array, np.ndarray) and not array.flags.writeable
    print(f'{tag}: expected flags.writeable False, observed {array.flags.writeable}')
    if not ok:
        bad.append(tag)

s = sf.Series((10, 20, 30, 40), index=tuple('abcd'))
check('Series.iloc_searchsorted([..])', s.iloc_searchsorted([15, 35]))
check('Series.loc_searchsorted([..])', s.loc_searchsorted([15, 35]))
check('Series.loc_searchsorted([..]) with fill (control, frozen)', s.loc_searchsorted([15, 99]))
idx = sf.Index((10, 20, 30, 40))
check('Index.iloc_searchsorted([..])', idx.iloc_searchsorted([15, 35]))
check('Index.loc_searchsorted([..])', idx.loc_searchsorted([15, 35]))
idd = sf.IndexDate.from_date_range('2020-01-01', '2020-01-10')
check('IndexDate.iloc_searchsorted([..])', idd.iloc_searchsorted(['2020-01-03', '2020-01-07']))
check('IndexDate.loc_searchsorted([..])', idd.loc_searchsorted(['2020-01-03', '2020-01-07']))
ih = sf.IndexHierarchy.from_product(('a', 'b'), (1, 2, 3))
check('IndexHierarchy.iloc_searchsorted([..])', ih.iloc_searchsorted([('a', 2), ('b', 1)]))
check('IndexHierarchy.loc_searchsorted([..])', ih.loc_searchsorted([('a', 2), ('b', 1)]))

if bad:
    print('VIOLATION present:', bad)
    sys.exit(1)
print('no violation')
sys.exit(0)
