'''C01 violation 1: a read-only *view* of a caller-owned writeable buffer is adopted without a copy.

np.broadcast_to / sliding_window_view / a[:] with the flag cleared all return arrays whose
flags.writeable is False while the memory is still writeable through the caller's base array.
immutable_filter only looks at the flag, so the container aliases the caller's memory and
later writes by the caller show through Frame / Series / Index.
'''
import sys
root = sys.argv[1] if len(sys.argv) > 1 else '.'
sys.path.insert(0, root)
import numpy as np
import static_frame as sf
import os
assert os.path.abspath(sf.__file__).startswith(os.path.abspath(root)), sf.__file__
from numpy.lib.stride_tricks import sliding_window_view

bad = []

# Frame from a rolling window (sliding_window_view returns a read-only view by default)
a = np.arange(6)
f = sf.Frame(sliding_window_view(a, 3))
before = f.values.tolist()
a[:] = 99 # the caller keeps working with its own array
after = f.values.tolist()
print('Frame(sliding_window_view(a, 3)): expected', before, 'observed', after)
if before != after:
    bad.append('Frame/sliding_window_view')

# Series from a broadcast row
row = np.array([1.5])
s = sf.Series(np.broadcast_to(row, (4,)), index=tuple('abcd'))
before = s.values.tolist()
row[0] = -1
after = s.values.tolist()
print('Series(np.broadcast_to(row, 4)): expected', before, 'observed', after)
if before != after:
    bad.append('Series/broadcast_to')

# Index from a view whose flag was cleared: labels and lookups diverge
b = np.array(['x', 'y', 'z'])
v = b[:]
v.flags.writeable = False
idx = sf.Index(v)
before = idx.values.tolist()
b[0] = 'q'
after = idx.values.tolist()
print('Index(read-only view of b): expected', before, 'observed', after, "| 'x' in idx:", 'x' in idx)
if before != after:
    bad.append('Index/view')

# Frame.from_items with a read-only view
c = np.arange(3)
cv = c.view(); cv.flags.writeable = False
f2 = sf.Frame.from_items((('a', cv),))
before = f2['a'].values.tolist()
c[0] = 77
after = f2['a'].values.tolist()
print('Frame.from_items(read-only view): expected', before, 'observed', after)
if before != after:
    bad.append('Frame.from_items/view')

if bad:
    print('VIOLATION present:', bad)
    sys.exit(1)
print('no violation')
sys.exit(0)
