'''C01 violation 6: Frame.from_csv / from_tsv / from_delimited of a file with a single data row keeps the blocks as views of a
still-writeable genfromtxt buffer: the buffer is obtainable through ndarray.base and writing to it changes the Frame (and its index).'''
import sys, os, io
root = sys.argv[1] if len(sys.argv) > 1 else '.'
sys.path.insert(0, root)
import numpy as np
import static_frame as sf
assert os.path.abspath(sf.__file__).startswith(os.path.abspath(root)), sf.__file__

bad = []
def base_chain(a):
    b = a.base
    while isinstance(b, np.ndarray):
        yield b
        b = b.base

f = sf.Frame.from_csv(io.StringIO('a,b\n1,2\n'))
col = f['a'].values
print('column flags.writeable:', col.flags.writeable)
before = f.values.tolist()
for b in base_chain(col):
    print('  reachable base', b.shape, b.dtype, 'writeable:', b.flags.writeable)
    if b.flags.writeable:
        b[...] = 99
after = f.values.tolist()
print('from_csv one row: expected', before, 'observed after writing to .base', after)
if before != after:
    bad.append('from_csv values')

f2 = sf.Frame.from_tsv(io.StringIO('i\ta\tb\n7\t1\t2\n'), index_depth=1)
before = (f2.index.values.tolist(), f2.values.tolist())
for arr in (f2.index.values, f2['a'].values):
    for b in base_chain(arr):
        if b.flags.writeable:
            b[...] = 55
after = (f2.index.values.tolist(), f2.values.tolist())
print('from_tsv one row with index: expected', before, 'observed', after)
if before != after:
    bad.append('from_tsv index/values')

f3 = sf.Frame.from_csv(io.StringIO('a,b\n1,x\n')) # heterogenous: structured 0-d array
w = [b.shape for arr in f3.iter_array(axis=0) for b in base_chain(arr) if b.flags.writeable]
print('from_csv one heterogenous row: writeable bases reachable:', w)
if w:
    bad.append('from_csv structured base writeable')

if bad:
    print('VIOLATION present:', bad)
    sys.exit(1)
print('no violation')
sys.exit(0)
