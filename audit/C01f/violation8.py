'''C01 violation 8: unpickling with protocol-5 out-of-band buffers: __setstate__ only clears the writeable flag, so the
re-created Series / Frame / Index keep aliasing the (writeable) buffers the caller passed to pickle.loads; later writes to
those buffers change the container.'''
import sys, os, pickle
root = sys.argv[1] if len(sys.argv) > 1 else '.'
sys.path.insert(0, root)
import numpy as np
import static_frame as sf
assert os.path.abspath(sf.__file__).startswith(os.path.abspath(root)), sf.__file__

bad = []
def round_trip(obj):
    bufs = []
    data = pickle.dumps(obj, protocol=5, buffer_callback=bufs.append)
    recv = [bytearray(b.raw()) for b in bufs] # e.g. buffers received from a socket / shared memory
    return pickle.loads(data, buffers=recv), recv

s = sf.Series(np.arange(5), index=np.arange(10, 15))
s2, recv = round_trip(s)
print('flags after round trip (read-only status is preserved):', s2.values.flags.writeable, s2.index.values.flags.writeable)
before = (s2.values.tolist(), s2.index.values.tolist())
for r in recv:
    r[:] = bytes(len(r))
after = (s2.values.tolist(), s2.index.values.tolist())
print('Series: expected', before, 'observed after the caller reused its buffers', after)
if before != after:
    bad.append('Series')

f = sf.Frame(np.arange(6).reshape(3, 2), columns=(1, 2))
f2, recv = round_trip(f)
before = f2.values.tolist()
for r in recv:
    r[:] = bytes(len(r))
after = f2.values.tolist()
print('Frame: expected', before, 'observed', after)
if before != after:
    bad.append('Frame')

if bad:
    print('VIOLATION present:', bad)
    sys.exit(1)
print('no violation')
sys.exit(0)
