'''C01 violation 4: Index.loc_to_iloc returns writeable position arrays for Boolean-array keys and,
on datetime indices, for partial-date keys ('2020-01', '2020', datetime64 of a coarser unit).'''
import sys, os
root = sys.argv[1] if len(sys.argv) > 1 else '.'
sys.path.insert(0, root)
import numpy as np
import static_frame as sf
assert os.path.abspath(sf.__file__).startswith(os.path.abspath(root)), sf.__file__

bad = []
def check(tag, array):
    if not isinstance(array, np.ndarray):
        print(f'{tag}: not an array ({type(array).__name__}), skipped'); return
    print(f'{tag}: expected flags.writeable False, observed {array.flags.writeable}')
    if array.flags.writeable:
        bad.append(tag)

idd = sf.IndexDate.from_date_range('2020-01-01', '2020-03-01')
check("IndexDate.loc_to_iloc('2020-01')", idd.loc_to_iloc('2020-01'))
check("IndexDate.loc_to_iloc('2020')", idd.loc_to_iloc('2020'))
check("IndexDate.loc_to_iloc(np.datetime64('2020-02'))", idd.loc_to_iloc(np.datetime64('2020-02')))
idx = sf.Index(tuple('abcd'))
check('Index.loc_to_iloc(bool array)', idx.loc_to_iloc(np.array([True, False, True, False])))
auto = sf.Series((1, 2, 3, 4)).index
check('auto Index.loc_to_iloc(bool array)', auto.loc_to_iloc(np.array([True, False, True, False])))
ih = sf.IndexHierarchy.from_product(('a', 'b'), (1, 2))
check('IndexHierarchy.loc_to_iloc(bool array)', ih.loc_to_iloc(np.array([True, False, True, False])))

if bad:
    print('VIOLATION present:', bad)
    sys.exit(1)
print('no violation')
sys.exit(0)
