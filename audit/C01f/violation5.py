'''C01 violation 5: iter_group_labels_items with a multi-depth depth_level yields the group label as a writeable
ndarray (a row of a writeable 2D "unique" buffer reachable through .base); also via .apply_iter_items and for a
single depth given as a list.'''
import sys, os
root = sys.argv[1] if len(sys.argv) > 1 else '.'
sys.path.insert(0, root)
import numpy as np
import static_frame as sf
assert os.path.abspath(sf.__file__).startswith(os.path.abspath(root)), sf.__file__

bad = []
def check(tag, obj):
    if not isinstance(obj, np.ndarray):
        print(f'{tag}: label is {type(obj).__name__}, not an array: ok'); return
    base_w = obj.base is not None and obj.base.flags.writeable
    print(f'{tag}: label is ndarray; expected writeable False, observed {obj.flags.writeable} (base writeable: {base_w})')
    if obj.flags.writeable or base_w:
        bad.append(tag)

ih = sf.IndexHierarchy.from_product(('a', 'b'), (1, 2, 3))
f = sf.Frame(np.arange(12).reshape(6, 2), index=ih, columns=('x', 'y'))
for label, _ in f.iter_group_labels_items([0, 1]):
    check('Frame.iter_group_labels_items([0, 1])', label); break
for label, _ in f.iter_group_labels_items([0]):
    check('Frame.iter_group_labels_items([0])', label); break
for label, _ in f.iter_group_labels([0, 1]).apply_iter_items(len):
    check('Frame.iter_group_labels([0, 1]).apply_iter_items', label); break
ft = f.T
for label, _ in ft.iter_group_labels_items([0, 1], axis=1):
    check('Frame.iter_group_labels_items([0, 1], axis=1)', label); break
s = sf.Series(np.arange(6), index=ih)
for label, _ in s.iter_group_labels_items([0, 1]):
    check('Series.iter_group_labels_items([0, 1])', label); break

if bad:
    print('VIOLATION present:', bad)
    sys.exit(1)
print('no violation')
sys.exit(0)
