'''C01 violation 7 (public sf.TypeBlocks): TypeBlocks.group yields, and TypeBlocks.dropna_to_keep_locations returns,
writeable Boolean selection arrays.'''
import sys, os
root = sys.argv[1] if len(sys.argv) > 1 else '.'
sys.path.insert(0, root)
import numpy as np
import static_frame as sf
assert os.path.abspath(sf.__file__).startswith(os.path.abspath(root)), sf.__file__

bad = []
tb = sf.TypeBlocks.from_blocks([np.array([1, 1, 2]), np.array([1.5, np.nan, 3.0])])
for group, selection, sub in tb.group(0, 0):
    print('TypeBlocks.group selection: expected writeable False, observed', selection.flags.writeable)
    if selection.flags.writeable:
        bad.append('group selection')
    break
rows, cols = tb.dropna_to_keep_locations(axis=0, condition=np.any)
for tag, a in (('row', rows), ('column', cols)):
    if isinstance(a, np.ndarray):
        print(f'TypeBlocks.dropna_to_keep_locations {tag} key: expected writeable False, observed', a.flags.writeable)
        if a.flags.writeable:
            bad.append(f'dropna_to_keep_locations {tag}')
rows, cols = tb.dropna_to_keep_locations(axis=1, condition=np.any)
for tag, a in (('row', rows), ('column', cols)):
    if isinstance(a, np.ndarray):
        print(f'TypeBlocks.dropna_to_keep_locations(axis=1) {tag} key: expected writeable False, observed', a.flags.writeable)
        if a.flags.writeable:
            bad.append(f'dropna_to_keep_locations(axis=1) {tag}')
if bad:
    print('VIOLATION present:', bad)
    sys.exit(1)
print('no violation')
sys.exit(0)
