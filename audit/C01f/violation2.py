'''C01 violation 2: labels observable through IndexHierarchy.iter_label change (dtype, and for big ints the value)
after an unrelated public call on the same static IndexHierarchy (anything that fills the lazy TypeBlocks cache:
.values, .dtypes, .positions, printing a Frame that uses it as index, ...).
'''
import sys, os
root = sys.argv[1] if len(sys.argv) > 1 else '.'
sys.path.insert(0, root)
import numpy as np
import static_frame as sf
assert os.path.abspath(sf.__file__).startswith(os.path.abspath(root)), sf.__file__

big = 2**53 + 1
ih = sf.IndexHierarchy.from_labels([('a', big), ('a', 2), ('b', 1.5), ('b', 3.0)])
f = sf.Frame(np.arange(4).reshape(4, 1), index=ih)

def observe():
    labels = list(f.index.iter_label(1))
    return [(type(x).__name__, int(x) if float(x).is_integer() else float(x)) for x in labels]

before = observe()
str(f)          # an unrelated read-only call (display) on the Frame
after = observe()
print('iter_label(1) before display:', before)
print('iter_label(1) after  display:', after)

ih2 = sf.IndexHierarchy.from_index_items((('a', sf.IndexDate(('2020-01-01',))), ('b', sf.IndexYear(('2020', '2021')))))
b2 = [str(x) for x in ih2.iter_label(1)]
ih2.dtypes
a2 = [str(x) for x in ih2.iter_label(1)]
print('datetime level before .dtypes:', b2)
print('datetime level after  .dtypes:', a2)

if before != after or b2 != a2:
    print('VIOLATION present: labels yielded by a static IndexHierarchy changed after an unrelated call')
    sys.exit(1)
print('no violation')
sys.exit(0)
