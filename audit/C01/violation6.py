'''C01 violation (low plausibility, public but rarely used API): IndexHierarchy(levels) adopts the caller's
static sf.IndexLevel by reference, and IndexLevel has public, assignable attributes (index, targets, offset).
Re-binding them after construction changes the labels of the existing IndexHierarchy (and of every Series /
Frame that uses it as index).  Analogous to, but distinct from, the known assignable Series.values.
'''
import sys
sys.path.insert(0, sys.argv[1])
import numpy as np
import static_frame as sf
assert sf.__file__.startswith(sys.argv[1]), sf.__file__

il = sf.IndexLevel.from_tree({'a': (1, 2), 'b': (1, 2)})
ih = sf.IndexHierarchy(il)
s = sf.Series(np.arange(4), index=ih)
expected = [('a', 1), ('a', 2), ('b', 1), ('b', 2)]

il.index = sf.Index(('x', 'y'))          # public attribute of an object the IndexHierarchy was built from

observed = [tuple(x) for x in s.index.values.tolist()]
print('expected labels:', expected)
print('observed labels:', observed)
if observed != expected:
    sys.exit(1)
try:
    ok = s.index.loc_to_iloc(('a', 1)) == 0
except KeyError:
    ok = False
if not ok:
    print("observed: ('a', 1) is no longer a valid label")
    sys.exit(1)
sys.exit(0)
