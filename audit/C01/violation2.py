'''C01 violation: a deepcopy round trip does not preserve the read-only status when the copied object
graph also contains a reference to one of the container's arrays.

copy.deepcopy((s.values, s)) first deep-copies the ndarray s.values (NumPy returns a WRITEABLE copy and the
deepcopy machinery stores it in `memo`); Series.__deepcopy__ -> util.array_deepcopy then finds id(array) in
memo and returns that writeable copy as-is.  The copied Series / Frame / Index therefore holds (and shares
with the other copied reference) a writeable array: its content can be changed.
'''
import sys, copy
sys.path.insert(0, sys.argv[1])
import numpy as np
import static_frame as sf
assert sf.__file__.startswith(sys.argv[1]), sf.__file__

bad = []

s = sf.Series(np.array([1, 2, 3]), index=('a', 'b', 'c'))
holder = {'cached_values': s.values, 'series': s}      # e.g. an object caching .values next to the Series
h2 = copy.deepcopy(holder)
s2 = h2['series']
if s2.values.flags.writeable:
    bad.append('Series: deepcopy().values is writeable')
before = s2.to_pairs()
try:
    h2['cached_values'][0] = 99     # a write through the *other* copied reference
except ValueError:
    pass
if s2.to_pairs() != before:
    bad.append(f'Series: copied Series changed {before} -> {s2.to_pairs()}')

f = sf.Frame(np.arange(6).reshape(3, 2), columns=('a', 'b'))
v2, f2 = copy.deepcopy((f.values, f))
if f2.values.flags.writeable:
    bad.append('Frame: deepcopy().values is writeable')

i = sf.Index(('x', 'y'))
v2, i2 = copy.deepcopy([i.values, i])
if i2.values.flags.writeable:
    bad.append('Index: deepcopy().values is writeable')

ih = sf.IndexHierarchy.from_product(('a', 'b'), (1, 2))
v2, ih2 = copy.deepcopy([ih.values_at_depth(0), ih])
if any(a.flags.writeable for a in (ih2.values_at_depth(0), ih2.values_at_depth(1))):
    bad.append('IndexHierarchy: deepcopy().values_at_depth(0) is writeable')

print('expected: deepcopy round trips preserve content AND read-only status of every array of the copy')
if bad:
    print('observed:')
    for b in bad:
        print('  -', b)
    sys.exit(1)
print('observed: all arrays of the copies are read-only')
sys.exit(0)
