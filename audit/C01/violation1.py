'''C01 violation: round(Frame) / Frame.__round__ returns a Frame whose blocks are WRITEABLE arrays.

TypeBlocks.__round__ builds a TypeBlocks directly from the arrays yielded by _ufunc_blocks
(np.round results) without freezing them, so .values of the rounded Frame (and of every block) is writeable and a write through it changes the (supposedly immutable) Frame.
'''
import sys
sys.path.insert(0, sys.argv[1])
import numpy as np
import static_frame as sf
assert sf.__file__.startswith(sys.argv[1]), sf.__file__

f = sf.Frame(np.array([[1.234, 2.5], [3.1, 4.9]]), columns=('a', 'b'))
r = round(f, 1)

bad = []
if r.values.flags.writeable:
    bad.append('round(frame).values is writeable')
row = r.iloc[0]

before = r.to_pairs(0)
try:
    r.values[0, 0] = 99.0       # write through the array returned by a public property
except ValueError:
    pass
after = r.to_pairs(0)
if before != after:
    bad.append(f'content of the rounded Frame changed by a write through .values: {before} -> {after}')

print('expected: every array obtainable from round(frame) is read-only and the Frame cannot change')
if bad:
    print('observed:')
    for b in bad:
        print('  -', b)
    sys.exit(1)
print('observed: arrays are read-only')
sys.exit(0)
