'''C01 violation (technical): several operations return containers/arrays that are read-only VIEWS of a
WRITEABLE buffer owned by the library.  The buffer is obtainable from the returned array (ndarray.base), is
writeable, and a write through it changes the supposedly immutable container.

Routes reproduced here: Frame.isin (np.isin result reshaped), Frame.median (axis reductions written into
slices of an `out` buffer), Frame.unique(axis=...), Frame.from_elements with several columns (np.tile of a
reshaped view), Frame.from_structured_array (columns are views of a writeable private copy).
'''
import sys
sys.path.insert(0, sys.argv[1])
import numpy as np
import static_frame as sf
assert sf.__file__.startswith(sys.argv[1]), sf.__file__

bad = []

def writeable_base(a):
    b = a.base
    while isinstance(b, np.ndarray):
        if b.flags.writeable:
            return b
        b = b.base
    return None

f = sf.Frame(np.arange(6).reshape(3, 2), columns=('a', 'b'))

r = f.isin([1, 2])
wb = writeable_base(r.values)
if wb is not None:
    before = r.to_pairs(0)
    wb[...] = True
    if r.to_pairs(0) != before:
        bad.append('Frame.isin(): result.values.base is writeable; writing through it changed the result Frame')

m = f.median()
wb = writeable_base(m.values)
if wb is not None:
    before = m.to_pairs()
    wb[0] = -1
    if m.to_pairs() != before:
        bad.append('Frame.median(): result.values.base is writeable; writing through it changed the result Series')

u = f.unique(axis=0)
if writeable_base(u) is not None:
    bad.append('Frame.unique(axis=0): returned array has a writeable base')

e = sf.Frame.from_elements(['x', 'y'], columns=('a', 'b'))
if writeable_base(e.values) is not None:
    bad.append('Frame.from_elements(..., columns=(a, b)): values.base is writeable')

sa = np.array([(1, 'a'), (2, 'b')], dtype=[('x', int), ('y', 'U2')])
fs = sf.Frame.from_structured_array(sa)
wb = writeable_base(fs['x'].values)
if wb is not None:
    before = fs.to_pairs(0)
    wb['x'] = 99
    if fs.to_pairs(0) != before:
        bad.append("Frame.from_structured_array(): frame['x'].values.base is a writeable structured array; writing through it changed the Frame")

print('expected: every NumPy array obtainable from a container (including via ndarray.base) is read-only')
if bad:
    print('observed:')
    for b in bad:
        print('  -', b)
    sys.exit(1)
print('observed: no writeable base reachable')
sys.exit(0)
