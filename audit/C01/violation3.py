'''C01 violation: IndexHierarchy @ other and other @ IndexHierarchy (matmul / rmatmul) return WRITEABLE arrays.

IndexHierarchy._ufunc_binary_operator returns matmul(self._blocks.values, other) directly; unlike Index
(fixed earlier) and Series/Frame, the result is not frozen.
'''
import sys
sys.path.insert(0, sys.argv[1])
import numpy as np
import static_frame as sf
assert sf.__file__.startswith(sys.argv[1]), sf.__file__

ih = sf.IndexHierarchy.from_labels(np.array([[1, 2], [1, 3], [2, 2]]))
bad = []
r1 = ih @ np.array([1, 2])
if r1.flags.writeable:
    bad.append(f'ih @ array -> writeable array {r1!r}')
r2 = ih @ np.array([[1, 2], [3, 4]])
if r2.flags.writeable:
    bad.append('ih @ 2D array -> writeable array')
r3 = [1, 2, 3] @ ih
if r3.flags.writeable:
    bad.append(f'list @ ih (rmatmul) -> writeable array {r3!r}')

print('expected: every array returned by an operation on an IndexHierarchy is read-only')
if bad:
    print('observed:')
    for b in bad:
        print('  -', b)
    sys.exit(1)
print('observed: results are read-only')
sys.exit(0)
