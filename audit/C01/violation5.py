'''C01 violation: pickle round trip with protocol 5 out-of-band buffers yields a container that is a frozen
VIEW of the caller's writeable buffers.

__setstate__ of Series / Index / TypeBlocks only sets flags.writeable = False on the re-animated arrays.
With pickle.loads(data, buffers=[bytearray, ...]) (the normal receiving side of an out-of-band transfer, e.g.
buffers filled with recv_into) NumPy builds the arrays directly on the supplied bytearrays, so the container
does not own a copy: later writes by the caller into its buffer (e.g. re-using the receive buffer) are visible
through the "immutable" container.
'''
import sys, pickle
sys.path.insert(0, sys.argv[1])
import numpy as np
import static_frame as sf
assert sf.__file__.startswith(sys.argv[1]), sf.__file__

bad = []
for label, c in (
        ('Series', sf.Series(np.arange(5), index=tuple('abcde'))),
        ('Frame', sf.Frame(np.arange(6).reshape(3, 2), columns=('a', 'b'))),
        ('Index', sf.Index(np.arange(4) * 10)),
        ):
    bufs = []
    data = pickle.dumps(c, protocol=5, buffer_callback=bufs.append)
    recv = [bytearray(b.raw()) for b in bufs]          # receiver-side, caller-owned, mutable buffers
    c2 = pickle.loads(data, buffers=recv)
    assert c2.equals(c)
    before = c2.values.tolist()
    for r in recv:                                        # caller re-uses its buffers
        r[:] = b'\x07' * len(r)
    after = c2.values.tolist()
    if before != after:
        bad.append(f'{label}: values changed after the caller wrote into its own buffers: {before} -> {after}')

print('expected: an unpickled container owns read-only copies; later writes by the caller are never visible')
if bad:
    print('observed:')
    for b in bad:
        print('  -', b)
    sys.exit(1)
print('observed: unpickled containers unaffected')
sys.exit(0)
