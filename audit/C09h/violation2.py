'''C09 violation 2: a grow-only datetime index (IndexDateGO, IndexYearGO, ...) built from an auto-integer
index (the default index / columns of a Frame, whose labels are the positions) keeps the "labels are
positions" mode without a label -> position mapping. append() then skips the duplicate check: a label
that is already present is accepted, the index holds it twice and can no longer be used for lookups.
As the columns of a FrameGO (columns=..., columns_constructor=IndexYearGO) every __setitem__ fails with
AttributeError.

Sentence contradicted: "Growing a FrameGO, IndexGO or IndexHierarchyGO only appends: ... the new labels
follow in the order given, and duplicates or mis-sized values are rejected."
'''
import sys
sys.path.insert(0, sys.argv[1])
import numpy as np
import static_frame as sf
assert sf.__file__.startswith(sys.argv[1]), sf.__file__

problems = []
auto = sf.Frame(np.zeros((2, 3))).columns            # labels 0, 1, 2 (auto-integer)
for cls in (sf.IndexYearGO, sf.IndexDateGO, sf.IndexSecondGO):
    idx = cls(auto)                                   # 1970.., epoch based
    first = idx.values[0]
    labels_before = [str(x) for x in idx.values]
    try:
        idx.append(first)                             # duplicate of the first label
        accepted = True
    except Exception as e:
        accepted = False
    labels_after = [str(x) for x in idx.values]
    print('%s: append of the existing label %s: expected rejection and labels %r; observed %s, labels %r' % (
            cls.__name__, first, labels_before, 'ACCEPTED' if accepted else 'rejected', labels_after))
    if accepted or labels_after != labels_before:
        problems.append(cls.__name__ + ' duplicate accepted')
    try:
        idx.loc_to_iloc(first)
    except Exception as e:
        print('   lookup of %s afterwards: %s: %s' % (first, type(e).__name__, e))
        problems.append(cls.__name__ + ' unusable')

# control: the same labels given as an array are handled correctly
ctrl = sf.IndexYearGO(np.arange(3))
try:
    ctrl.append(ctrl.values[0])
    print('control accepted a duplicate')
except KeyError:
    print('control (labels from an array): duplicate rejected')

fg = sf.FrameGO(np.zeros((2, 3)), columns=auto, columns_constructor=sf.IndexYearGO)
try:
    fg['1999'] = 0
    print('FrameGO with such columns: growth accepted, shape', fg.shape)
except Exception as e:
    print('FrameGO with such columns: valid growth fails with %s: %s' % (type(e).__name__, e))
    if isinstance(e, AttributeError):
        problems.append('FrameGO unusable')

if problems:
    print('VIOLATION', problems)
    sys.exit(1)
print('no violation')
sys.exit(0)
