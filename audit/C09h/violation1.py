'''C09 violation 1: union() / intersection() called with no operand (e.g. idx.union(*others) with an empty
`others`) on a grow-only index returns the index itself, not a new index: growth of the "result" is growth of
the source - and, for the columns of a FrameGO, the frame ends with more labels than data columns.

Sentence contradicted: "No growth of one container is ever visible through another: containers converted or
derived from a grow-only container before it grew ... stay unchanged in both directions."
'''
import sys
sys.path.insert(0, sys.argv[1])
import numpy as np
import static_frame as sf
assert sf.__file__.startswith(sys.argv[1]), sf.__file__

problems = []
cases = [
    ('IndexGO', lambda: sf.IndexGO(('a', 'b')), 'c'),
    ('IndexDateGO', lambda: sf.IndexDateGO(('2020-01-01', '2020-01-02')), '2020-01-03'),
    ('IndexHierarchyGO', lambda: sf.IndexHierarchyGO.from_labels([('a', 1), ('a', 2)]), ('a', 3)),
    ]
for name, make, new in cases:
    for op in ('union', 'intersection'):
        src = make()
        others = []                                  # e.g. the columns of zero other frames
        derived = getattr(src, op)(*others)
        before = src.values.tolist()
        derived.append(new)                          # grow the derived index
        after = src.values.tolist()
        print('%s.%s(): expected source labels to stay %r; observed %r (same object: %s)' % (
                name, op, before, after, derived is src))
        if after != before or derived is src:
            problems.append((name, op))

# the same through the columns of a FrameGO
fg = sf.FrameGO.from_records([(1, 2), (3, 4)], columns=('a', 'b'))
frames = []
all_columns = fg.columns.union(*(f.columns for f in frames))
all_columns.append('c')
print('FrameGO: expected 2 labels for 2 data columns; observed %d labels %r for shape %r' % (
        len(fg.columns), fg.columns.values.tolist(), fg.shape))
if len(fg.columns) != fg.shape[1]:
    problems.append(('FrameGO', 'columns.union()'))

if problems:
    print('VIOLATION', problems)
    sys.exit(1)
print('no violation')
sys.exit(0)
