'''C09 violation 5: appending a label of another numeric / string kind re-casts ALL labels of an IndexGO to a
"resolved" dtype, changing the value of labels that were already present (a static Index built from the same
labels keeps them intact as objects).

(a) int64 labels + one float label -> float64: 2**53 + 1 becomes 9007199254740992.0
(b) int64 labels + one uint64-sized label -> float64
(c) bytes labels + one str label -> <U: b'ab' becomes 'ab' and collides with the appended 'ab' (duplicate labels)
'''
import sys
sys.path.insert(0, sys.argv[1])
import numpy as np
import static_frame as sf
assert sf.__file__.startswith(sys.argv[1]), sf.__file__

bad = False

big = 2 ** 53 + 1
f = sf.FrameGO(np.arange(4).reshape(2, 2), columns=(big, 5))
f[0.5] = 0
first = f.columns.values[0]
print(f'(a) first column label before: {big}; after f[0.5] = 0: {first!r} (dtype {f.columns.dtype})')
if int(first) != big:
    print('    VIOLATION: an existing label changed value')
    bad = True
if list(sf.Index((big, 5, 0.5)))[0] != big:
    print('    (static Index also alters it)')

idx = sf.IndexGO((2 ** 62 + 1, 2))
idx.append(2 ** 64 - 1)
print(f'(b) labels after appending 2**64-1: {list(idx)!r}')
if int(idx.values[0]) != 2 ** 62 + 1 or int(idx.values[-1]) != 2 ** 64 - 1:
    print('    VIOLATION: labels changed value')
    bad = True

idx = sf.IndexGO((b'ab', b'c'))
idx.append('ab')
labels = list(idx)
print(f'(c) labels after appending "ab" to (b"ab", b"c"): {labels!r}')
if labels[0] != b'ab' or len(set(labels)) != len(labels):
    print('    VIOLATION: an existing bytes label became str, and the labels now contain a duplicate')
    bad = True
sys.exit(1 if bad else 0)
