'''C09 violation 1: a rejected FrameGO.extend / IndexGO.extend on auto-integer (loc_is_iloc) columns is applied partially.

History: FrameGO with automatic integer columns (0, 1, 2); extend with a Frame whose columns are (0.5, 1.0) (or an iterable (3, 1.0)).
The label 1.0 duplicates the existing label 1 (1.0 == 1, same hash), so the call must be rejected as a whole.
'''
import sys
sys.path.insert(0, sys.argv[1])
import numpy as np
import static_frame as sf
assert sf.__file__.startswith(sys.argv[1]), sf.__file__

bad = False

# (a) IndexGO.extend
idx = sf.FrameGO(np.zeros((1, 3))).columns   # IndexGO, loc_is_iloc (no map)
before = list(idx)
try:
    idx.extend((3, 1.0))
    print('IndexGO.extend((3, 1.0)) was accepted?!', list(idx))
    bad = True
except (KeyError, ValueError) as e:
    after = list(idx)
    print(f'IndexGO.extend((3, 1.0)) rejected with {e!r}; labels before {before}, after {after}')
    if after != before:
        print('  VIOLATION: rejected extend left the label 3 appended')
        bad = True

# (b) FrameGO.extend(Frame): labels and data out of step
f = sf.FrameGO(np.arange(6).reshape(2, 3))
other = sf.Frame(np.arange(4).reshape(2, 2), columns=(0.5, 1.0))
try:
    f.extend(other)
    print('FrameGO.extend was accepted?!')
    bad = True
except (KeyError, ValueError) as e:
    print(f'FrameGO.extend(Frame[columns=(0.5, 1.0)]) rejected with {e!r}')
    print(f'  expected: columns [0, 1, 2], shape (2, 3); observed: columns {list(f.columns)}, shape {f.shape}, values shape {f.values.shape}')
    if len(f.columns) != f.shape[1] or list(f.columns) != [0, 1, 2]:
        print('  VIOLATION: labels and data are out of step after a rejected growth call')
        bad = True
        try:
            f.iloc[0]
        except Exception as e2:
            print(f'  and the FrameGO is no longer usable: f.iloc[0] raises {e2!r}')

# (c) FrameGO.extend_items: not all-or-nothing
g = sf.FrameGO(np.arange(6).reshape(2, 3))
try:
    g.extend_items(((3, (7, 8)), (1.0, (9, 9))))
    bad = True
except (KeyError, ValueError, RuntimeError) as e:
    print(f'FrameGO.extend_items(((3, ..), (1.0, ..))) rejected with {e!r}; columns now {list(g.columns)}, shape {g.shape}')
    if list(g.columns) != [0, 1, 2] or g.shape != (2, 3):
        print('  VIOLATION: the first pair of a rejected extend_items call was kept')
        bad = True

sys.exit(1 if bad else 0)
