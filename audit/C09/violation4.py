'''C09 violation 4: growing an IndexGO that holds datetime64 labels with a non-datetime label rewrites the
labels that were already there (np.datetime64 -> datetime.date / datetime.datetime / raw int), so earlier
labels do not remain what they were, and labels and lookup map fall out of step.

History: FrameGO(columns=np.array(['2020-01-01', '2020-01-02'], dtype='datetime64[D]')) (a plain IndexGO of
dtype datetime64[D]); f['total'] = ...; read list(f.columns).
'''
import sys
sys.path.insert(0, sys.argv[1])
import numpy as np
import static_frame as sf
assert sf.__file__.startswith(sys.argv[1]), sf.__file__

bad = False
for unit in ('D', 'ns'):
    dates = np.array(['2020-01-01', '2020-01-02'], dtype=f'datetime64[{unit}]')
    f = sf.FrameGO(np.arange(4).reshape(2, 2), columns=dates)
    before = list(f.columns)
    f['total'] = f.sum(axis=1)
    after = list(f.columns)
    static = list(sf.Index(list(dates) + ['total']))  # what a static Index built from the same labels holds
    print(f'[{unit}] labels before growth: {before!r}')
    print(f'[{unit}] labels after  growth: {after!r}')
    print(f'[{unit}] static Index of the same labels: {static!r}')
    same = all(type(a) is type(b) and a == b for a, b in zip(before, after))
    if not same:
        print(f'[{unit}] VIOLATION: labels present before the growth changed (kind and/or value)')
        bad = True
    for label in after:
        try:
            f[label]
        except KeyError as e:
            print(f'[{unit}] VIOLATION: the FrameGO cannot look up its own label {label!r}: KeyError')
            bad = True
            break
sys.exit(1 if bad else 0)
