'''C09 violation 2: FrameGO.extend_items on datetime columns is not all-or-nothing when two keys are
different spellings of the same (normalised) date label.

History: FrameGO with IndexYearMonthGO columns ('2020-01', '2020-02');
extend_items([('2020-03-05', ..), ('2020-03-20', ..)]). Both keys normalise to 2020-03, so the second is a
duplicate and the call is rejected -- but the first pair stays appended.
'''
import sys, datetime
sys.path.insert(0, sys.argv[1])
import numpy as np
import static_frame as sf
assert sf.__file__.startswith(sys.argv[1]), sf.__file__

bad = False

def state(f):
    return [str(c) for c in f.columns], f.shape

for name, cols, pairs in (
        ('IndexYearMonthGO, two days of one month',
            sf.IndexYearMonthGO(('2020-01', '2020-02')),
            (('2020-03-05', (1, 2)), ('2020-03-20', (3, 4)))),
        ('IndexDateGO, str and datetime.date for one day',
            sf.IndexDateGO(('2020-01-01', '2020-01-02')),
            (('2020-01-03', (1, 2)), (datetime.date(2020, 1, 3), (3, 4)))),
        ):
    f = sf.FrameGO(np.arange(4).reshape(2, 2), columns=cols)
    before = state(f)
    try:
        f.extend_items(pairs)
        print(f'{name}: accepted?! {state(f)}')
        bad = True
    except Exception as e:
        after = state(f)
        print(f'{name}: extend_items rejected with {e!r}')
        print(f'   expected state {before}; observed {after}')
        if after != before:
            print('   VIOLATION: a rejected extend_items call left its first pair appended')
            bad = True

sys.exit(1 if bad else 0)
