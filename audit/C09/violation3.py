'''C09 violation 3: labels appended to an IndexGO (or FrameGO columns) are missing from iter_label() until
some other read happens to refresh the cache.

History: IndexGO(('a', 'b')); append('c'); tuple(idx.iter_label()).
Expected ('a', 'b', 'c') (new labels follow in order); observed ('a', 'b').
'''
import sys
sys.path.insert(0, sys.argv[1])
import numpy as np
import static_frame as sf
assert sf.__file__.startswith(sys.argv[1]), sf.__file__

bad = False

idx = sf.IndexGO(('a', 'b'))
idx.append('c')
got = tuple(str(x) for x in idx.iter_label())
print(f'IndexGO: after append("c"), iter_label() gives {got}; expected ("a", "b", "c")')
if got != ('a', 'b', 'c'):
    bad = True

idx = sf.IndexGO(('a', 'b'))
idx.append('c')
got = [tuple(map(str, p)) for p in idx.iter_label().apply_iter_items(lambda x: x)]
print(f'IndexGO: iter_label().apply_iter_items gives {got}')
if len(got) != 3:
    bad = True

f = sf.FrameGO.from_records([(1, 2)], columns=('a', 'b'))
f['c'] = 3
try:
    g = f.relabel(columns=f.columns.iter_label().apply(str.upper))
    print('FrameGO: relabel via columns.iter_label().apply ->', list(g.columns))
    if list(g.columns) != ['A', 'B', 'C']:
        bad = True
except Exception as e:
    print(f'FrameGO: after f["c"] = 3, f.relabel(columns=f.columns.iter_label().apply(str.upper)) raises {e!r} (labels read are stale: only 2 of 3)')
    bad = True

# the same reads after any cache-materialising read are fine, showing this is a stale cache
len(idx)
print('after len(idx):', tuple(str(x) for x in idx.iter_label()))
sys.exit(1 if bad else 0)
