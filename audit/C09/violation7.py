'''C09 violation 7: copy.copy() of a FrameGO shares the grow-only columns index and the TypeBlocks with the
original, so growth of either one is visible through the other (in both directions).

(copy.copy of IndexGO / IndexHierarchyGO, copy.deepcopy of a FrameGO, and to_frame_go() are independent.)
'''
import sys, copy
sys.path.insert(0, sys.argv[1])
import numpy as np
import static_frame as sf
assert sf.__file__.startswith(sys.argv[1]), sf.__file__

bad = False
f = sf.FrameGO.from_records([(1, 2), (3, 4)], columns=('a', 'b'))
g = copy.copy(f)
print('copy is a distinct object:', g is not f, '| shares _columns:', g._columns is f._columns, '| shares _blocks:', g._blocks is f._blocks)
f['c'] = 0
print(f'after f["c"] = 0: copy has columns {list(g.columns)}, shape {g.shape} (expected [a, b], (2, 2))')
if g.shape != (2, 2):
    bad = True
g['d'] = 1
print(f'after g["d"] = 1: original has columns {list(f.columns)}, shape {f.shape} (expected [a, b, c], (2, 3))')
if f.shape != (2, 3):
    bad = True
if bad:
    print('VIOLATION: growth of one FrameGO is visible through another container')
sys.exit(1 if bad else 0)
