'''C09 violation 6: a growth call that fails inside IndexGO.append leaves the lookup map mutated.

History: FrameGO with columns ('a', 'b'); f[np.float64] = 3 (the label is the NumPy scalar *type*, a valid
hashable label that a static Index accepts). The call raises AttributeError, but the label has already been
added to the columns' map: labels and map are out of step, the key is reported as present, a retry is
refused as "already defined", and selecting it fails.
'''
import sys
sys.path.insert(0, sys.argv[1])
import numpy as np
import static_frame as sf
assert sf.__file__.startswith(sys.argv[1]), sf.__file__

bad = False
print('static Index accepts the label:', list(sf.Index(('a', 'b', np.float64))))

f = sf.FrameGO.from_records([(1, 2)], columns=('a', 'b'))
try:
    f[np.float64] = 3
    print('accepted; columns', list(f.columns), 'shape', f.shape)
    ok = len(f.columns) == 3 and f.shape == (1, 3) and f[np.float64].values.tolist() == [3]
    sys.exit(0 if ok else 1)
except Exception as e:
    print(f'f[np.float64] = 3 raised {e!r}')

print(f'columns {list(f.columns)}, shape {f.shape}; (np.float64 in f.columns) = {np.float64 in f.columns}; map size {len(f.columns._map)} vs {len(f.columns)} labels')
if np.float64 in f.columns:
    print('VIOLATION: the failed growth call left the key in the columns map (container not exactly as it was)')
    bad = True
try:
    f[np.float64] = 3
except Exception as e:
    print(f'retry raises {e!r}')
    if 'already defined' in str(e):
        bad = True
try:
    f[np.float64]
except Exception as e:
    print(f'selection f[np.float64] raises {e!r}')

idx = sf.IndexGO(('a', 'b'))
try:
    idx.append(np.int64)
except Exception as e:
    print(f'IndexGO.append(np.int64) raised {e!r}; labels {list(idx)}; (np.int64 in idx) = {np.int64 in idx}')
    if np.int64 in idx:
        bad = True
sys.exit(1 if bad else 0)
