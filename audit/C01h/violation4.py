'''
C01 violation 4: a Boolean scalar used as an iloc key (Index[True], Index.iloc[False], Frame.iloc[True, True], Frame.iloc[False, 0])
returns a WRITEABLE two-dimensional ndarray.

Sentence contradicted: "Every NumPy array obtainable from any container or returned by any operation is read-only"
Inside the quantifier: "... with any arguments (including failing calls)".
'''
import sys
root = sys.argv[1]
sys.path.insert(0, root)
import numpy as np
import static_frame as sf
assert sf.__file__.startswith(root), sf.__file__

idx = sf.Index(('a', 'b', 'c'))
f = sf.Frame(np.arange(6.).reshape(3, 2), index=idx, columns=('p', 'q'))
g = sf.Frame.from_items((('p', (1, 2, 3)), ('q', ('x', 'y', 'z'))), index=idx)
cases = [
    ('Index[True]', lambda: idx[True]),
    ('Index.iloc[False]', lambda: idx.iloc[False]),
    ('Index[np.True_]', lambda: idx[np.True_]),
    ('Frame.iloc[True, True]', lambda: f.iloc[True, True]),
    ('Frame.iloc[False, 0]', lambda: f.iloc[False, 0]),
    ('Frame(columnar).iloc[True, True]', lambda: g.iloc[True, True]),
    ]
bad = 0
for desc, fn in cases:
    try:
        r = fn()
    except Exception as e:
        print(desc, '-> raises', type(e).__name__, '(fine)')
        continue
    if isinstance(r, np.ndarray) and r.flags.writeable:
        bad += 1
        print(f'{desc}: expected an exception, an element or a read-only array; observed ndarray shape={r.shape} flags.writeable=True')
    else:
        print(desc, '->', type(r).__name__, getattr(r, 'flags', None) and r.flags.writeable)
print('violations:', bad)
sys.exit(1 if bad else 0)
