'''
C01 violation 1: Index.__getitem__ / Index.iloc[...] with a range, Series or Index key return a WRITEABLE ndarray.

Sentence contradicted: "Every NumPy array obtainable from any container or returned by any operation is read-only"
Inside the quantifier: "for all public methods/properties/selector interfaces applied ... with any arguments".
'''
import sys
root = sys.argv[1]
sys.path.insert(0, root)
import numpy as np
import static_frame as sf
assert sf.__file__.startswith(root), sf.__file__

idx = sf.Index(('a', 'b', 'c', 'd'))
idd = sf.IndexDate(('2020-01-01', '2020-01-02', '2020-01-03'))
cases = [
    ('Index[range(2)]', lambda: idx[range(2)]),
    ('Index.iloc[range(1, 3)]', lambda: idx.iloc[range(1, 3)]),
    ('Index[Series((0, 2))]', lambda: idx[sf.Series((0, 2))]),
    ('Index.iloc[Index((0, 2))]', lambda: idx.iloc[sf.Index((0, 2))]),
    ('IndexDate[Series((0, 1))]', lambda: idd[sf.Series((0, 1))]),
    ('Series.index[range(2)]', lambda: sf.Series((1, 2, 3, 4), index=idx).index[range(2)]),
    ('Frame.columns.iloc[range(2)]', lambda: sf.Frame.from_element(0, index=(1,), columns=idx).columns.iloc[range(2)]),
    ]
bad = 0
for desc, f in cases:
    try:
        r = f()
    except Exception as e:
        print(desc, '-> raises', type(e).__name__, '(no array returned: fine)')
        continue
    if isinstance(r, np.ndarray):
        if r.flags.writeable:
            bad += 1
            print(f'{desc}: expected an Index (or at least a read-only array); observed {type(r).__name__} shape={r.shape} flags.writeable={r.flags.writeable}')
            r[0] = r[-1] # the write is accepted
        else:
            print(desc, '-> read-only ndarray')
    else:
        print(desc, '->', type(r).__name__, '(fine)')
# reference: the same selection with a list is an immutable Index
ref = idx[[0, 1]]
assert isinstance(ref, sf.Index) and not ref.values.flags.writeable
print('violations:', bad)
sys.exit(1 if bad else 0)
