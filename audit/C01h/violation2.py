'''
C01 violation 2: Frame.from_pandas (own_data=False, the default) on a DataFrame with string columns (the default str dtype of pandas 3)
or nullable extension columns stores blocks that are read-only VIEWS of a writeable buffer the library itself obtained from
DataFrame.to_numpy(); the buffer is reachable through ndarray.base of the arrays the Frame hands out, and a write through it changes the Frame.

Sentences contradicted: "Every NumPy array obtainable from any container or returned by any operation is read-only" and
"no sequence of public calls ... can change any value ... observable through it".
(Same defect class as the repaired "results built as views of a new buffer freeze that buffer too".)
'''
import sys, warnings
root = sys.argv[1]
sys.path.insert(0, root)
warnings.simplefilter('ignore')
import numpy as np
import static_frame as sf
assert sf.__file__.startswith(root), sf.__file__
try:
    import pandas as pd
except ImportError:
    print('pandas not available: nothing to check')
    sys.exit(0)

def writeable_in_chain(a):
    b = a
    while isinstance(b, np.ndarray):
        if b.flags.writeable:
            return b
        b = b.base
    return None

bad = 0
frames = {
    'str column': pd.DataFrame({'a': ['x', 'y', 'z'], 'b': [1, 2, 3]}),
    'two str columns': pd.DataFrame({'a': ['x', 'y'], 'b': ['p', 'q']}),
    'nullable Int64/boolean': pd.DataFrame({'a': pd.array([1, None, 3]), 'b': pd.array([True, None, False])}),
    }
for desc, df in frames.items():
    f = sf.Frame.from_pandas(df)
    before = f.values.tolist()
    hit = False
    for i, a in enumerate(f.iter_array(axis=0)):
        w = writeable_in_chain(a)
        if w is not None:
            hit = True
            print(f'{desc}: column {i} dtype={a.dtype}: expected no writeable array along .base; observed a writeable base of dtype {w.dtype} shape {w.shape}')
            try:
                w.flat[0] = w.flat[w.size - 1] # a write through the buffer
            except Exception as e:
                print('   write failed', e)
    after = f.values.tolist()
    if hit:
        bad += 1
    if before != after:
        print(f'{desc}: Frame values changed: expected {before} observed {after}')
print('violations:', bad)
sys.exit(1 if bad else 0)
