'''
C01 violation 3: a pickle round trip does not preserve the label -> position mapping of an index that holds NaN as a label.

Before the round trip `np.nan in index` is True and `series.loc[np.nan]` / `index.loc_to_iloc(np.nan)` answer; after
pickle.loads(pickle.dumps(...)) the same calls answer False / raise KeyError (the values array is equal, the mapping is not:
the unpickled map holds a new float object for NaN, and NaN only matches by identity). copy.deepcopy keeps the mapping.

Sentence contradicted: "Pickle and deepcopy round trips preserve both the content and the read-only status."
'''
import sys, pickle, copy
root = sys.argv[1]
sys.path.insert(0, root)
import numpy as np
import static_frame as sf
assert sf.__file__.startswith(root), sf.__file__

def look(index, label):
    try:
        return (label in index, index.loc_to_iloc(label))
    except Exception as e:
        return type(e).__name__

bad = 0
s = sf.Series((10, 20, 30), index=(1.5, np.nan, 3.0), name='s')
f = sf.Frame.from_records([(1, 2)], columns=('a', np.nan))
for desc, c, get_index, select in (
        ('Series index (float64)', s, lambda c: c.index, lambda c: c.loc[np.nan]),
        ('Frame columns (object)', f, lambda c: c.columns, lambda c: c[np.nan].values.tolist()),
        ('Index', s.index, lambda c: c, lambda c: c.loc[np.nan]),
        ):
    expected = look(get_index(c), np.nan)
    try:
        expected_sel = repr(select(c))
    except Exception as e:
        expected_sel = type(e).__name__
    for proto in (2, 4, 5):
        c2 = pickle.loads(pickle.dumps(c, protocol=proto))
        observed = look(get_index(c2), np.nan)
        try:
            observed_sel = repr(select(c2))
        except Exception as e:
            observed_sel = type(e).__name__
        same_values = repr(get_index(c2).values.tolist()) == repr(get_index(c).values.tolist())
        if observed != expected or observed_sel != expected_sel:
            bad += 1
            print(f'{desc}, protocol {proto}: labels equal: {same_values}; (np.nan in index, loc_to_iloc(np.nan)) expected {expected} observed {observed}; selection expected {expected_sel} observed {observed_sel}')
    c3 = copy.deepcopy(c)
    if look(get_index(c3), np.nan) != expected:
        bad += 1
        print(f'{desc}, deepcopy: expected {expected} observed {look(get_index(c3), np.nan)}')
print('violations:', bad)
sys.exit(1 if bad else 0)
