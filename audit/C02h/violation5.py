'''C02 violation 5: a bytes object given as the labels of an Index produces an index whose length, iteration and
values disagree (a map of len(b) integer keys over a 0-d label array).

Sentence contradicted: "For an index of n labels ... length is n, and iteration, reversed iteration and the values
array all present the labels in that same order."
(A single str is one label; a bytes object is taken apart by the map but kept whole by the label array.)
'''
import sys
root = sys.argv[1]
sys.path.insert(0, root)
import numpy as np
import static_frame as sf
assert sf.__file__.startswith(root), sf.__file__

bad = 0
for cls in (sf.Index, sf.IndexGO):
    tag = f'{cls.__name__}(b"ab")'
    try:
        idx = cls(b'ab')
    except Exception as e:
        print(f'{tag}: raised {e!r} (acceptable: no index produced)')
        continue
    obs = {}
    for name, f in (('len', lambda: len(idx)), ('iteration', lambda: list(idx)), ('reversed', lambda: list(reversed(idx))),
            ('values', lambda: idx.values.tolist()), ('values.shape', lambda: idx.values.shape)):
        try:
            obs[name] = f()
        except Exception as e:
            obs[name] = f'raised {e!r}'
    members = [k for k in (97, 98, b'ab', b'a') if k in idx]
    print(f'{tag}: expected an index whose len, iteration and values agree (one label b"ab", or the labels 97, 98); observed {obs}, members among (97, 98, b"ab", b"a"): {members}')
    consistent = (isinstance(obs['len'], int) and isinstance(obs['iteration'], list) and len(obs['iteration']) == obs['len']
            and obs['values.shape'] == (obs['len'],) and all(l in idx for l in obs['iteration']) and len(members) == obs['len'])
    if not consistent:
        bad += 1

print('VIOLATION PRESENT' if bad else 'OK')
sys.exit(1 if bad else 0)
