'''C02 violation 1: a datetime-typed index built from an auto-integer index holds labels it cannot find.

Sentence contradicted: "For an index of n labels, looking up the i-th label returns position i, membership is true
exactly for held labels ... This holds for every index type (plain, auto-integer, datetime-typed, ...)".

Route: constructor of IndexDate / IndexYear / ... (and their GO forms) given the default (auto-integer) index of a
Series / Frame; also reached through index_constructor=IndexDate with such an index.
'''
import sys
root = sys.argv[1]
sys.path.insert(0, root)
import numpy as np
import static_frame as sf
assert sf.__file__.startswith(root), sf.__file__

bad = 0
def check(idx, tag):
    global bad
    labels = list(idx)
    print(f'{tag}: {type(idx).__name__} labels={labels}')
    for i, label in enumerate(labels):
        try:
            member = label in idx
        except Exception as e:
            member = f'raised {e!r}'
        try:
            pos = idx.loc_to_iloc(label)
        except Exception as e:
            pos = f'raised {e!r}'
        ok = member is True and isinstance(pos, (int, np.integer)) and pos == i
        print(f'   label {label!r}: expected membership True, position {i}; observed membership {member}, position {pos}')
        if not ok:
            bad += 1

auto = sf.Series(('a', 'b', 'c')).index           # default index of a Series: labels 0, 1, 2
check(sf.IndexDate(auto), 'IndexDate(series.index)')
check(sf.IndexYearGO(sf.Frame.from_records([(1, 2), (3, 4)]).index), 'IndexYearGO(frame.index)')
s = sf.Series((10, 20), index=sf.Series((1, 2)).index, index_constructor=sf.IndexSecond)
check(s.index, 'Series(index=auto_index, index_constructor=IndexSecond).index')
# the grow-only form also accepts a duplicate, as no map is consulted
g = sf.IndexDateGO(auto)
try:
    g.append('1970-01-01')
    dup = list(g).count(np.datetime64('1970-01-01'))
    print(f'IndexDateGO(auto).append("1970-01-01"): expected KeyError (label already held); observed accepted, label now held {dup} times')
    bad += 1
except KeyError:
    print('IndexDateGO(auto).append("1970-01-01"): KeyError (expected)')
except Exception as e:
    print(f'IndexDateGO(auto).append("1970-01-01"): raised {e!r}')

print('VIOLATION PRESENT' if bad else 'OK')
sys.exit(1 if bad else 0)
