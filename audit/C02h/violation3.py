'''C02 violation 3: heterogeneous labels that NumPy coerces to one dtype (timedelta64 + int, number + bytes,
datetime64 + timedelta64): the constructor accepts them, but the labels held are the coerced values: they can be
equal to each other and cannot be found.

Sentences contradicted: "Every index that can be constructed or derived holds pairwise distinct labels, and
construction from non-unique labels ... is rejected" and "looking up the i-th label returns position i, membership
is true exactly for held labels".
'''
import sys
root = sys.argv[1]
sys.path.insert(0, root)
import numpy as np
import static_frame as sf
assert sf.__file__.startswith(root), sf.__file__

bad = 0
def check(make, given, tag):
    '''given labels are distinct as dict keys: either an index of exactly these labels, or an ErrorInitIndex'''
    global bad
    try:
        idx = make()
    except sf.ErrorInitIndex as e:
        print(f'{tag}: rejected with {e!r} (acceptable)')
        return
    labels = list(idx)
    print(f'{tag}: given {given!r}; observed labels {labels!r} (dtype {idx.dtype})')
    if len(set(labels)) != len(labels):
        print(f'   expected pairwise distinct labels; observed {labels!r}')
        bad += 1
    for i, label in enumerate(labels):
        try:
            member = label in idx
        except Exception as e:
            member = f'raised {e!r}'
        try:
            pos = idx.loc_to_iloc(label)
        except Exception as e:
            pos = f'raised {e!r}'
        if member is not True or pos != i:
            print(f'   label {i} {label!r}: expected membership True, position {i}; observed membership {member}, position {pos}')
            bad += 1

TD = np.timedelta64
check(lambda: sf.Index([TD(3, 'D'), 3]), [TD(3, 'D'), 3], 'Index([timedelta64(3,"D"), 3])')
check(lambda: sf.IndexGO([TD(1, 'D'), 5]), [TD(1, 'D'), 5], 'IndexGO([timedelta64(1,"D"), 5])')
check(lambda: sf.Index([b'1', 1]), [b'1', 1], "Index([b'1', 1])")
check(lambda: sf.Series.from_dict({b'x': 0, 2.5: 1}).index, [b'x', 2.5], "Series.from_dict({b'x': 0, 2.5: 1}).index")
check(lambda: sf.Index([np.datetime64('2020-01-01'), TD(1, 'D')]), [np.datetime64('2020-01-01'), TD(1, 'D')], 'Index([datetime64, timedelta64])')

print('VIOLATION PRESENT' if bad else 'OK')
sys.exit(1 if bad else 0)
