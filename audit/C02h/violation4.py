'''C02 violation 4: str labels that differ only by trailing NUL characters are accepted as distinct, but the index
holds them as equal labels (fixed-width unicode arrays drop trailing NULs).

Sentences contradicted: "Every index that can be constructed or derived holds pairwise distinct labels" and
"looking up the i-th label returns position i".
'''
import sys
root = sys.argv[1]
sys.path.insert(0, root)
import numpy as np
import static_frame as sf
assert sf.__file__.startswith(root), sf.__file__

bad = 0
def check(make, given, tag):
    global bad
    try:
        idx = make()
    except sf.ErrorInitIndex as e:
        print(f'{tag}: rejected with {e!r} (acceptable)')
        return
    labels = list(idx)
    print(f'{tag}: given {given!r}; expected {len(given)} pairwise distinct labels; observed {labels!r}')
    if len(set(labels)) != len(labels):
        bad += 1
    for i, label in enumerate(labels):
        pos = idx.loc_to_iloc(label)
        if pos != i:
            print(f'   label {i} {label!r}: expected position {i}; observed {pos}')
            bad += 1

check(lambda: sf.Index(['a', 'a\x00']), ['a', 'a\x00'], "Index(['a', 'a\\x00'])")
def grow():
    g = sf.IndexGO(['k'])
    g.append('k\x00')
    return g
check(grow, ['k', 'k\x00'], "IndexGO(['k']).append('k\\x00')")
check(lambda: sf.Frame.from_dict({'c': (1,), 'c\x00': (2,)}).columns, ['c', 'c\x00'], "Frame.from_dict({'c':..., 'c\\x00':...}).columns")

print('VIOLATION PRESENT' if bad else 'OK')
sys.exit(1 if bad else 0)
