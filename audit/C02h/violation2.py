'''C02 violation 2: grow-only columns / IndexGO holding bytes labels: appending a str label rewrites the held
labels (b'b' -> 'b') and lets two equal labels in.

Sentences contradicted: "Every index that can be constructed or derived holds pairwise distinct labels" and
"For an index of n labels, looking up the i-th label returns position i, membership is true exactly for held labels"
("... and their grow-only forms after any number of appends").
'''
import sys
root = sys.argv[1]
sys.path.insert(0, root)
import numpy as np
import static_frame as sf
assert sf.__file__.startswith(root), sf.__file__

bad = 0
def check(idx, expected, tag):
    global bad
    labels = list(idx)
    print(f'{tag}: expected labels {expected!r}; observed {labels!r}')
    if len(labels) != len(expected) or any(not (a == b and hash(a) == hash(b)) for a, b in zip(labels, expected)):
        bad += 1
    if len(set(labels)) != len(labels):
        print(f'   labels are not pairwise distinct: {labels!r}')
        bad += 1
    for i, label in enumerate(labels):
        member = label in idx
        try:
            pos = idx.loc_to_iloc(label)
        except Exception as e:
            pos = f'raised {e!r}'
        if member is not True or pos != i:
            print(f'   label {label!r}: expected membership True, position {i}; observed membership {member}, position {pos}')
            bad += 1
    for label in expected:
        if label not in idx:
            print(f'   appended/held label {label!r} reported as not held')

g = sf.IndexGO([b'a', b'b'])
g.append('a')          # accepted: 'a' is not b'a'
check(g, [b'a', b'b', 'a'], "IndexGO([b'a', b'b']).append('a')")

f = sf.FrameGO(index=(0, 1))
f[b'x'] = 1
f['x'] = 2
check(f.columns, [b'x', 'x'], "FrameGO columns after f[b'x'], f['x']")

print('VIOLATION PRESENT' if bad else 'OK')
sys.exit(1 if bad else 0)
