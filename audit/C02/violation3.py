'''C02 violation: the public `dtype` argument of the Index constructor converts the label
array but not the label-to-position map, so (a) labels that collide after conversion are
accepted and the index holds duplicates, (b) the i-th label (as presented by values /
iteration) is not a member and cannot be looked up.

Cause: Index.__init__ (static_frame/core/index.py) builds self._map from the unconverted
`labels` (FrozenAutoMap(labels) / AutoMap(labels)) and only afterwards builds self._labels
with _extract_labels(self._map, labels, dtype_extract) -> iterable_to_array_1d(labels, dtype).
Uniqueness is only checked on the unconverted values.
'''
import sys
sys.path.insert(0, sys.argv[1])
import numpy as np
import static_frame as sf

bad = []

def check(idx, tag):
    labels = list(idx)
    print(f'{tag}: values={idx.values.tolist()} dtype={idx.dtype}')
    if len(set(labels)) != len(labels):
        bad.append(f'{tag}: duplicate labels {labels}')
        print('   -> holds duplicate labels')
    for i, label in enumerate(labels):
        if label not in idx:
            bad.append(f'{tag}: held label {label!r} not a member')
            print(f'   -> {label!r} in idx is False')
        try:
            pos = idx.loc_to_iloc(label)
            if not (isinstance(pos, (int, np.integer)) and pos == i):
                bad.append(f'{tag}: loc_to_iloc({label!r}) = {pos!r} expected {i}')
                print(f'   -> loc_to_iloc({label!r}) = {pos!r}, expected {i}')
        except Exception as e:
            bad.append(f'{tag}: loc_to_iloc({label!r}) raised {type(e).__name__}')
            print(f'   -> loc_to_iloc({label!r}) raised {type(e).__name__}')

# (a) collapse after conversion: expected ErrorInitIndex, observed an index holding [1, 1]
try:
    check(sf.Index((1.2, 1.7), dtype=int), 'Index((1.2, 1.7), dtype=int)')
except sf.ErrorInitIndex as e:
    print('Index((1.2, 1.7), dtype=int) rejected:', type(e).__name__)

# (b) typed datetime labels from strings in a plain Index
try:
    check(sf.Index(('2020-01-01', '2020-01-02'), dtype='datetime64[D]'),
            "Index(('2020-01-01', '2020-01-02'), dtype='datetime64[D]')")
except sf.ErrorInitIndex as e:
    print('rejected:', type(e).__name__)

# (c) ints to str
try:
    check(sf.IndexGO((1, 2, 3), dtype=str), 'IndexGO((1, 2, 3), dtype=str)')
except sf.ErrorInitIndex as e:
    print('rejected:', type(e).__name__)

# (d) collapse of dates to month
try:
    check(sf.Index(('2020-01-01', '2020-01-02'), dtype='datetime64[M]'),
            "Index(('2020-01-01', '2020-01-02'), dtype='datetime64[M]')")
except sf.ErrorInitIndex as e:
    print('rejected:', type(e).__name__)

if bad:
    print('VIOLATION (%d problems)' % len(bad))
    sys.exit(1)
print('no violation')
sys.exit(0)
