'''C02 violation: IndexHierarchy.from_tree accepts a nested mapping whose branches have
different depths (not a tree of uniform depth). Instead of raising an index-initialisation
error it returns an index whose length, iteration order, values and lookups contradict each
other.

Cause: IndexLevel.from_tree / from_level_data (static_frame/core/index_level.py) never check
that all branches reach the same depth (the NOTE in from_tree says the check is missing);
depth is taken from the first branch only (IndexLevel._get_depth), and __iter__/values walk
the tree breadth-first assuming all leaves are at the same depth.
'''
import sys
sys.path.insert(0, sys.argv[1])
import static_frame as sf

tree = {'a': {'x': (1, 2)}, 'b': (1, 2)}   # 'a' has depth 3, 'b' has depth 2
print('from_tree(', tree, ')')
try:
    ih = sf.IndexHierarchy.from_tree(tree)
except sf.ErrorInitIndex as e:
    print('rejected with', type(e).__name__, '- no violation')
    sys.exit(0)
except Exception as e:
    print('rejected with', type(e).__name__, e, '(not an index-initialisation error, but no index produced)')
    sys.exit(0)

bad = []
labels = list(ih)
print('accepted: depth', ih.depth, 'len', len(ih))
print('   iteration:', labels)
try:
    print('   values:', ih.values.tolist())
except Exception as e:
    print('   values raised', type(e).__name__, e)
    bad.append('values raises')
for i, label in enumerate(labels):
    try:
        pos = ih.loc_to_iloc(label)
    except Exception as e:
        pos = f'{type(e).__name__}'
    print(f'   label #{i} {label}: in ih -> {label in ih}; loc_to_iloc -> {pos}')
    if pos != i:
        bad.append(f'label #{i} looked up at {pos}')
if bad:
    print('VIOLATION: non-tree label set accepted, resulting index is inconsistent:', bad)
    sys.exit(1)
print('index is self-consistent; no violation')
sys.exit(0)
