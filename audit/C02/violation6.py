'''C02 violation (integer labels outside the int64 range mixed with negative ints): the label
array is silently coerced to float64, so distinct integer labels collapse to the same float.
The index is accepted although its values/iteration hold duplicates, and the labels presented
by values/iteration are not members and cannot be looked up.

Cause: Index.__init__ builds the map from the Python ints, then Index._extract_labels ->
iterable_to_array_1d (static_frame/core/util.py) calls np.array(values) with dtype=None;
prepare_iter_for_array only forces object dtype for big ints when a float is also present
(has_big_int and has_inexact), not when NumPy itself falls back to float64 for an
int64/uint64 mixture.
'''
import sys
sys.path.insert(0, sys.argv[1])
import numpy as np
import static_frame as sf

labels_in = (-1, 2**63 + 1, 2**63 + 2)   # e.g. a sentinel and two unsigned 64-bit ids
try:
    idx = sf.Index(labels_in)
except sf.ErrorInitIndex as e:
    print('rejected', type(e).__name__)
    sys.exit(0)

bad = []
labels = list(idx)
print('Index(', labels_in, ')')
print('   values:', idx.values, idx.dtype)
if len(set(labels)) != len(labels):
    bad.append('duplicate labels in values/iteration')
for i, label in enumerate(labels):
    member = label in idx
    try:
        pos = idx.loc_to_iloc(label)
    except KeyError:
        pos = 'KeyError'
    print(f'   label #{i} {label!r}: in idx -> {member}; loc_to_iloc -> {pos}')
    if not member or pos != i:
        bad.append(f'label #{i}')
# the same through a grow-only index
g = sf.IndexGO((-1,))
g.append(2**63 + 1)
g.append(2**63 + 2)
print('IndexGO((-1,)) + two appends: values', g.values)
if len(set(g.values.tolist())) != 3:
    bad.append('IndexGO duplicates after appends')

if bad:
    print('VIOLATION:', bad)
    sys.exit(1)
print('no violation')
sys.exit(0)
