'''C02 violation: Index.iter_label() on a grow-only index ignores labels appended since the
last cache refresh, so this iteration route disagrees with len(), __iter__ and .values.

Cause: Index._iter_label / Index._iter_label_items (static_frame/core/index.py) read
self._labels / self._positions directly without the `if self._recache: self._update_array_cache()`
guard that every other reader has.
'''
import sys
sys.path.insert(0, sys.argv[1])
import static_frame as sf

bad = []

# 1. plain IndexGO
idx = sf.IndexGO(('a', 'b'))
idx.append('c')
idx.append('d')
got = list(idx.iter_label())
want = ['a', 'b', 'c', 'd']
print('IndexGO after two appends:')
print('   len(idx)               =', len(idx))
print('   list(idx.iter_label()) =', got)
print('   expected               =', want)
if got != want:
    bad.append('IndexGO.iter_label()')

idx = sf.IndexGO(('a', 'b'))
idx.append('c')
got = list(idx.iter_label().apply_iter(lambda x: x))
if got != ['a', 'b', 'c']:
    print('   iter_label().apply_iter  =', got, '(expected a, b, c)')
    bad.append('IndexGO.iter_label().apply_iter')

# 2. auto-integer columns of a FrameGO, grown through the Frame interface
f = sf.FrameGO.from_records([(1, 2), (3, 4)])
f[2] = (5, 6)
f['x'] = (7, 8)
got = list(f.columns.iter_label())
want = [0, 1, 2, 'x']
print('FrameGO.from_records columns after f[2]=..., f["x"]=...:')
print('   list(f.columns)              =', list(f.columns))
print('   list(f.columns.iter_label()) =', got)
if got != want:
    bad.append('FrameGO auto columns iter_label()')

# 3. IndexDateGO
d = sf.IndexDateGO(('2020-01-01',))
d.append('2020-01-02')
got = [str(x) for x in d.iter_label()]
print('IndexDateGO after one append: iter_label ->', got, ' values ->', [str(x) for x in d.values])
if got != ['2020-01-01', '2020-01-02']:
    bad.append('IndexDateGO.iter_label()')

if bad:
    print('VIOLATION: stale iteration via', bad)
    sys.exit(1)
print('no violation')
sys.exit(0)
