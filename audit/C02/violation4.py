'''C02 violation: membership on a hierarchical index is True for tuples that are NOT held
labels: any tuple that merely *starts with* a held label (i.e. is longer than the depth) is
reported as contained. Lookup of the same tuple correctly raises KeyError, so membership and
label-to-position lookup disagree.

Cause: IndexLevel.__contains__ (static_frame/core/index_level.py) walks the key element by
element and returns True as soon as it reaches a leaf level and finds the element there,
without checking that the key is exhausted. IndexHierarchy.__contains__ delegates to it.
'''
import sys
sys.path.insert(0, sys.argv[1])
import static_frame as sf

bad = []

def probe(ih, key, tag):
    held = [tuple(t) for t in ih]
    member = key in ih
    try:
        pos = ih.loc_to_iloc(key)
        lookup = f'position {pos}'
    except KeyError as e:
        lookup = 'KeyError'
    print(f'{tag}: {key!r} in ih -> {member}; held? {key in held}; loc_to_iloc -> {lookup}')
    if member and key not in held:
        bad.append((tag, key))

ih = sf.IndexHierarchy.from_product(('a', 'b'), (1, 2))
probe(ih, ('a', 1, 'zzz'), 'IndexHierarchy depth 2')
probe(ih, ('b', 2, None, None), 'IndexHierarchy depth 2')

g = sf.IndexHierarchyGO.from_labels([('a', 'x', 1), ('a', 'y', 1)])
g.append(('b', 'x', 1))
probe(g, ('b', 'x', 1, 99), 'IndexHierarchyGO depth 3 after append')

s = sf.Series((10, 20, 30, 40), index=ih)
key = ('a', 2, 'extra')
print(f'Series: {key!r} in s -> {key in s}')
if key in s:
    bad.append(('Series', key))

if bad:
    print('VIOLATION: non-held tuples reported as members:', bad)
    sys.exit(1)
print('no violation')
sys.exit(0)
