'''C02 violation: an Index constructed from a single string holds one label in its
values/len/iteration but maps the *characters* of the string to positions; the held label
is not a member and cannot be looked up, while non-held labels (the characters) are members.

Cause: Index.__init__ (static_frame/core/index.py) builds the map with FrozenAutoMap(labels)
(which iterates the characters of the str) but builds the label array with
iterable_to_array_1d(labels), which special-cases `isinstance(values, str)` into a single
element (static_frame/core/util.py). len() is taken from the label array.
'''
import sys
sys.path.insert(0, sys.argv[1])
import static_frame as sf

bad = []
for cls in (sf.Index, sf.IndexGO):
    idx = cls('abc')
    labels = list(idx)
    print(f"{cls.__name__}('abc'): len={len(idx)} values={idx.values.tolist()} iter={labels}")
    print("   'abc' in idx ->", 'abc' in idx, "   'a' in idx ->", 'a' in idx)
    for i, label in enumerate(labels):
        if label not in idx:
            bad.append(f'{cls.__name__}: held label {label!r} is not a member')
        try:
            pos = idx.loc_to_iloc(label)
            if pos != i:
                bad.append(f'{cls.__name__}: loc_to_iloc({label!r}) = {pos}, expected {i}')
        except KeyError as e:
            bad.append(f'{cls.__name__}: loc_to_iloc({label!r}) raised KeyError')
    for ch in 'abc':
        if ch in idx and ch not in labels:
            bad.append(f'{cls.__name__}: non-held label {ch!r} is a member')

# through a Series
s = sf.Series((1,), index='abc')
print('Series((1,), index="abc"): index labels', list(s.index))
try:
    print('   s["abc"] ->', s['abc'])
except KeyError:
    print('   s["abc"] raised KeyError although "abc" is the only index label')
    bad.append('Series lookup of its only label raises KeyError')

if bad:
    print('VIOLATION:')
    for b in bad:
        print('  ', b)
    sys.exit(1)
print('no violation')
sys.exit(0)
