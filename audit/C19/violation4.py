'''C19: reflected Batch operators (1 - batch, 2 * batch, 1 / batch ...) cannot be evaluated when the Batch uses a
process pool (max_workers set, use_threads=False): ContainerOperand.__r*__ build a local lambda that cannot be
pickled. The same Batch evaluates batch - 1 correctly, and 1 - batch works without a pool or with threads.'''
import sys, os, tempfile
sys.path.insert(0, sys.argv[1])
import numpy as np
import static_frame as sf
assert sf.__file__.startswith(sys.argv[1]), sf.__file__

def main():
    bad = False
    tmp = tempfile.mkdtemp(prefix='c19v_', dir='/dev/shm' if os.path.isdir('/dev/shm') else None)
    import atexit, shutil; atexit.register(shutil.rmtree, tmp, True)
    frames = [sf.Frame(np.arange(6.).reshape(3, 2) + 10 * i, index=['x', 'y', 'z'], columns=['a', 'b'], name=f'f{i}') for i in range(3)]
    fp = os.path.join(tmp, 'b.zip')
    sf.Bus.from_frames(frames).to_zip_pickle(fp)
    def batch(**kw):
        return sf.Batch(sf.Bus.from_zip_pickle(fp, max_persist=1).items(), **kw)
    # controls
    assert all(v.equals(f - 1) for (_, v), f in zip((batch(max_workers=2) - 1).items(), frames))
    assert all(v.equals(1 - f) for (_, v), f in zip((1 - batch(max_workers=2, use_threads=True)).items(), frames))
    for nm, fn in (('1 - batch', lambda b: 1 - b), ('2 * batch', lambda b: 2 * b), ('1 / (batch + 1)', lambda b: 1 / (b + 1)), ('3 + batch', lambda b: 3 + b), ('7 // (batch + 1)', lambda b: 7 // (b + 1))):
        try:
            got = dict(fn(batch(max_workers=2)).items())
            for f in frames:
                if not got[f.name].equals(fn(f)):
                    bad = True; print(nm, 'wrong result for', f.name)
        except Exception as e:
            bad = True
            print(f'{nm} with max_workers=2 (processes): expected per-label results, observed {type(e).__name__}: {e}')
    print('VIOLATION' if bad else 'ok')
    return 1 if bad else 0

if __name__ == '__main__':
    sys.exit(main())
