'''C19: on an axis-0 Quilt over two or more members, a key that selects NO columns (opposite axis) raises
ErrorInitTypeBlocks; the concatenated Frame returns an (n x 0) Frame. (With one member, and for an axis-1 Quilt
with an empty row key, the Quilt answers like the Frame.) Also reached through iter_window(axis=1) with a start_shift
beyond the last column. This is not the known "nothing selected along the Quilt axis" case.'''
import sys, os, tempfile
sys.path.insert(0, sys.argv[1])
import numpy as np
import static_frame as sf
assert sf.__file__.startswith(sys.argv[1]), sf.__file__

bad = False
tmp = tempfile.mkdtemp(prefix='c19v_', dir='/dev/shm' if os.path.isdir('/dev/shm') else None)
import atexit, shutil; atexit.register(shutil.rmtree, tmp, True)
frames = [sf.Frame(np.arange(6).reshape(2, 3) + 10 * i, index=[f'r{2*i}', f'r{2*i+1}'], columns=['a', 'b', 'c'], name=f'f{i}') for i in range(2)]
fp = os.path.join(tmp, 'e.zip')
sf.Bus.from_frames(frames).to_zip_pickle(fp)
ref = sf.Frame.from_concat(frames)
mask = ref.columns.values == 'zzz'          # a boolean selection with no hit
for nm, fq, fr in (
        ('iloc[:, 0:0]', lambda q: q.iloc[:, 0:0], lambda: ref.iloc[:, 0:0]),
        ('loc[:, []]', lambda q: q.loc[:, []], lambda: ref.loc[:, []]),
        ('[boolean mask without True]', lambda q: q[mask], lambda: ref[mask]),
        ('iter_window(size=2, axis=1, start_shift=3)', lambda q: tuple(q.iter_window(size=2, axis=1, start_shift=3)), lambda: tuple(ref.iter_window(size=2, axis=1, start_shift=3))),
        ):
    q = sf.Quilt.from_zip_pickle(fp, retain_labels=False, max_persist=1)
    exp = fr()
    try:
        got = fq(q)
        if isinstance(exp, tuple):
            ok = got == exp
        else:
            ok = got.shape == exp.shape and got.index.equals(exp.index)
        if not ok:
            bad = True; print(f'{nm}: expected {exp!r}, observed {got!r}')
    except Exception as e:
        bad = True
        print(f'{nm}: expected {"shape " + str(exp.shape) if not isinstance(exp, tuple) else exp}, observed {type(e).__name__}: {e}')

print('VIOLATION' if bad else 'ok')
sys.exit(1 if bad else 0)
