'''C19: a Bus member that is empty along the Quilt axis (0 rows for axis 0) makes the whole Quilt unusable
(ErrorInitIndexLevel at first use), although Frame.from_concat simply skips over it.'''
import sys, os, tempfile
sys.path.insert(0, sys.argv[1])
import numpy as np
import static_frame as sf
assert sf.__file__.startswith(sys.argv[1]), sf.__file__

bad = False
tmp = tempfile.mkdtemp(prefix='c19v_', dir='/dev/shm' if os.path.isdir('/dev/shm') else None)
import atexit, shutil; atexit.register(shutil.rmtree, tmp, True)
for axis in (0, 1):
    frames = []
    for i, n in enumerate((2, 0, 3)):
        f = sf.Frame(np.arange(n * 2).reshape(n, 2) + 10 * i, index=[f'r{i}{j}' for j in range(n)], columns=['a', 'b'], name=f'f{i}')
        frames.append(f if axis == 0 else f.T.rename(f'f{i}'))
    fp = os.path.join(tmp, f'z{axis}.zip')
    sf.Bus.from_frames(frames).to_zip_pickle(fp)
    ref = sf.Frame.from_concat(frames, axis=axis)
    q = sf.Quilt.from_zip_pickle(fp, axis=axis, retain_labels=False, max_persist=1)
    for nm, fn in (('shape', lambda x: x.shape), ('values', lambda x: x.values.tolist()), ('iloc[1:4] along the axis', lambda x: (x.iloc[1:4] if axis == 0 else x.iloc[:, 1:4]).values.tolist())):
        exp = fn(ref)
        try:
            got = fn(q)
            if got != exp:
                bad = True; print(f'axis={axis} {nm}: expected {exp}, observed {got}')
        except Exception as e:
            bad = True
            print(f'axis={axis} {nm}: expected {exp}, observed {type(e).__name__}: {e}')

print('VIOLATION (refusal)' if bad else 'ok')
sys.exit(1 if bad else 0)
