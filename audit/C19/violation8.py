'''C19: members whose labels along the Quilt axis are hierarchical cannot be viewed at all: the first use of the
Quilt (shape, index, to_frame, any selection) raises ErrorInitIndexLevel, with retain_labels on or off, while
Frame.from_concat builds the single Frame. (Explicit refusal, raised lazily, not by the constructor.)'''
import sys, os, tempfile
sys.path.insert(0, sys.argv[1])
import numpy as np
import static_frame as sf
assert sf.__file__.startswith(sys.argv[1]), sf.__file__

bad = False
tmp = tempfile.mkdtemp(prefix='c19v_', dir='/dev/shm' if os.path.isdir('/dev/shm') else None)
import atexit, shutil; atexit.register(shutil.rmtree, tmp, True)
frames = [sf.Frame(np.arange(8).reshape(4, 2) + 10 * i, index=sf.IndexHierarchy.from_product((f'g{i}',), (1, 2, 3, 4)), columns=['a', 'b'], name=f'f{i}') for i in range(2)]
fp = os.path.join(tmp, 'h.zip')
sf.Bus.from_frames(frames).to_zip_pickle(fp)
ref = sf.Frame.from_concat(frames)
refl = sf.Frame.from_concat([f.relabel_level_add(index=f.name) for f in frames])
for retain, r in ((False, ref), (True, refl)):
    q = sf.Quilt.from_zip_pickle(fp, retain_labels=retain, max_persist=1)   # constructor accepts it
    for nm, fn in (('shape', lambda x: x.shape), ('to_frame', lambda x: x.to_frame().values.tolist() if isinstance(x, sf.Quilt) else x.values.tolist()), ('iloc[3:6]', lambda x: x.iloc[3:6].values.tolist())):
        exp = fn(r)
        try:
            got = fn(q)
            if got != exp:
                bad = True; print(f'retain_labels={retain} {nm}: expected {exp}, observed {got}')
        except Exception as e:
            bad = True
            print(f'retain_labels={retain} {nm}: expected {exp}, observed {type(e).__name__}: {e}')

print('VIOLATION (refusal)' if bad else 'ok')
sys.exit(1 if bad else 0)
