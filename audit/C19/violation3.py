'''C19: typed (date) labels along the Quilt axis are not kept.
 (a) retain_labels=False: Quilt.index / .columns is a plain Index, so date-string keys that the concatenated
     Frame (IndexDate) accepts raise KeyError / LocInvalid.
 (b) retain_labels=True: Quilt.index has an IndexDate inner level (as the reference), but every Frame/Series
     the Quilt returns has an object-dtype inner level of datetime.date objects.'''
import sys, os, tempfile
sys.path.insert(0, sys.argv[1])
import numpy as np
import static_frame as sf
assert sf.__file__.startswith(sys.argv[1]), sf.__file__

bad = False
tmp = tempfile.mkdtemp(prefix='c19v_', dir='/dev/shm' if os.path.isdir('/dev/shm') else None)
import atexit, shutil; atexit.register(shutil.rmtree, tmp, True)
d0 = np.datetime64('2020-01-01')
frames = [sf.Frame(np.arange(6).reshape(3, 2) + 10 * i, index=sf.IndexDate(d0 + np.arange(3 * i, 3 * i + 3)), columns=['a', 'b'], name=f'f{i}') for i in range(2)]
fp = os.path.join(tmp, 'd.zip')
sf.Bus.from_frames(frames).to_zip_pickle(fp)

# (a)
ref = sf.Frame.from_concat(frames)
q = sf.Quilt.from_zip_pickle(fp, retain_labels=False, max_persist=1)
if q.index.__class__ is not ref.index.__class__:
    bad = True; print(f'(a) index class: expected {ref.index.__class__.__name__}, observed {q.index.__class__.__name__}')
for key in ('2020-01-02', '2020-01', slice('2020-01-03', '2020-01-05'), slice('2020-01-03', None)):
    exp = ref.loc[key]
    try:
        got = q.loc[key]
        if not got.equals(exp):
            bad = True; print(f'(a) loc[{key!r}] differs')
    except Exception as e:
        bad = True; print(f'(a) loc[{key!r}]: expected shape {exp.shape}, observed {type(e).__name__}: {e}')

# (b)
ref = sf.Frame.from_concat_items(((f.name, f) for f in frames))
q = sf.Quilt.from_zip_pickle(fp, retain_labels=True, max_persist=1)
assert list(q.index.dtypes.values) == list(ref.index.dtypes.values)
for nm, fq, fr in (('to_frame()', lambda: q.to_frame(), lambda: ref),
                   ('iloc[1:5]', lambda: q.iloc[1:5], lambda: ref.iloc[1:5]),
                   ("loc[HLoc['f1']]", lambda: q.loc[sf.HLoc['f1']], lambda: ref.loc[sf.HLoc['f1']]),
                   ("['a']", lambda: q['a'], lambda: ref['a'])):
    got, exp = fq(), fr()
    gd, ed = list(got.index.dtypes.values), list(exp.index.dtypes.values)
    if gd != ed or list(got.index.index_types.values) != list(exp.index.index_types.values):
        bad = True
        print(f'(b) {nm}: expected index dtypes {ed} / inner {exp.index.index_types.values[1].__name__}; observed {gd} / inner {got.index.index_types.values[1].__name__}')
assert ref.loc[sf.HLoc['f0', '2020-01-02']].values.tolist() == [2, 3]
try:
    q.to_frame().loc[sf.HLoc['f0', '2020-01-02']]
except Exception as e:
    bad = True
    print(f"(b) q.to_frame().loc[HLoc['f0', '2020-01-02']] works on the reference, observed {type(e).__name__}: {e}")

print('VIOLATION' if bad else 'ok')
sys.exit(1 if bad else 0)
