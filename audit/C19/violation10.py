'''C19: a Quilt over a Bus whose labels are tuples answers shape / index / to_frame, but every selection and window
raises KeyError: the member is looked up in the axis map with HLoc[label], and a tuple label is read as a multi-depth key.'''
import sys
sys.path.insert(0, sys.argv[1])
import numpy as np
import static_frame as sf
assert sf.__file__.startswith(sys.argv[1]), sf.__file__

bad = False
labels = [('a', 1), ('a', 2), ('b', 1)]
frames = [sf.Frame(np.arange(6).reshape(2, 3) + 10 * i, index=[f'r{2*i}', f'r{2*i+1}'], columns=['x', 'y', 'z'], name=labels[i]) for i in range(3)]
bus = sf.Bus.from_frames(frames)
ref = sf.Frame.from_concat(frames)
q = sf.Quilt(bus, retain_labels=False)
assert q.shape == ref.shape and q.to_frame().equals(ref)
for nm, fn in (('iloc[0]', lambda x: x.iloc[0].values.tolist()), ('iloc[1:5]', lambda x: x.iloc[1:5].values.tolist()),
               ("loc['r3', 'y']", lambda x: x.loc['r3', 'y']), ("['y']", lambda x: x['y'].values.tolist()), ('head(2)', lambda x: x.head(2).values.tolist()),
               ('iter_window(size=2)', lambda x: [w.values.tolist() for w in x.iter_window(size=2)])):
    exp = fn(ref)
    try:
        got = fn(q)
        if got != exp:
            bad = True; print(f'{nm}: expected {exp}, observed {got}')
    except Exception as e:
        bad = True
        print(f'{nm}: expected {exp}, observed {type(e).__name__}: {e}')

print('VIOLATION' if bad else 'ok')
sys.exit(1 if bad else 0)
