'''C19: with retain_labels=True a member whose Bus label is falsy (0, False, '') does not get the outer
level: Frame.relabel_level_add(index=0) is a no-op ("if index"). Quilt.index has the level, results do not.
Plausible route: Quilt.from_frame on a Frame with the default integer index (first chunk label is 0).'''
import sys
sys.path.insert(0, sys.argv[1])
import numpy as np
import static_frame as sf
assert sf.__file__.startswith(sys.argv[1]), sf.__file__

bad = False
f = sf.Frame(np.arange(12).reshape(6, 2), columns=['a', 'b'])   # index 0..5
for axis in (0, 1):
    src = f if axis == 0 else f.T
    q = sf.Quilt.from_frame(src, chunksize=2, retain_labels=True, axis=axis)
    members = list(q._bus.values)
    ref = sf.Frame.from_concat_items(((m.name, m) for m in members), axis=axis)
    along = (lambda x: x.index) if axis == 0 else (lambda x: x.columns)
    assert along(q).equals(along(ref)), 'Quilt labels themselves are as expected'
    try:
        got = q.to_frame()
        if not got.equals(ref):
            bad = True; print(f'axis={axis} to_frame differs')
    except Exception as e:
        bad = True
        print(f'axis={axis} to_frame(): expected the (6 x 2) concatenation with labels {along(ref).values.tolist()}; observed {type(e).__name__}: {str(e)[:80]}')
    sel = q.iloc[0:2] if axis == 0 else q.iloc[:, 0:2]
    exp = ref.iloc[0:2] if axis == 0 else ref.iloc[:, 0:2]
    if not along(sel).equals(along(exp)):
        bad = True
        print(f'axis={axis} selection of the first member: expected labels {along(exp).values.tolist()}, observed {along(sel).values.tolist()}')
    sel = q.loc[sf.HLoc[0]] if axis == 0 else q.loc[:, sf.HLoc[0]]
    exp = ref.loc[sf.HLoc[0]] if axis == 0 else ref.loc[:, sf.HLoc[0]]
    if not along(sel).equals(along(exp)):
        bad = True
        print(f'axis={axis} loc[HLoc[0]]: expected labels {along(exp).values.tolist()}, observed {along(sel).values.tolist()}')
    try:
        sel = q.iloc[1:4] if axis == 0 else q.iloc[:, 1:4]
        exp = ref.iloc[1:4] if axis == 0 else ref.iloc[:, 1:4]
        if not sel.equals(exp):
            bad = True; print(f'axis={axis} iloc[1:4] differs')
    except Exception as e:
        bad = True
        print(f'axis={axis} selection spanning members 0 and 2 (positions 1:4): expected 3 labelled entries, observed {type(e).__name__}: {str(e)[:80]}')

print('VIOLATION' if bad else 'ok')
sys.exit(1 if bad else 0)
