'''C19: when members disagree on the dtype of a column (axis 0) or of a row-aligned block, a Quilt selection /
iteration that touches only some members has the dtype of those members, not the dtype the column has in the
concatenated Frame. Values compare equal; dtypes (and element types) do not.'''
import sys, os, tempfile
sys.path.insert(0, sys.argv[1])
import numpy as np
import static_frame as sf
assert sf.__file__.startswith(sys.argv[1]), sf.__file__

bad = False
tmp = tempfile.mkdtemp(prefix='c19v_', dir='/dev/shm' if os.path.isdir('/dev/shm') else None)
import atexit, shutil; atexit.register(shutil.rmtree, tmp, True)
f0 = sf.Frame.from_dict(dict(a=np.array([1, 2, 3]), b=np.array([True, False, True])), index=['r0', 'r1', 'r2'], name='f0')
f1 = sf.Frame.from_dict(dict(a=np.array([1.5, 2.5]), b=np.array([7, 8])), index=['r3', 'r4'], name='f1')
fp = os.path.join(tmp, 'd.zip')
sf.Bus.from_frames((f0, f1)).to_zip_pickle(fp)
ref = sf.Frame.from_concat((f0, f1))          # a: float64, b: object
q = sf.Quilt.from_zip_pickle(fp, retain_labels=False, max_persist=1)
assert q.to_frame().equals(ref, compare_dtype=True)

def report(nm, got, exp):
    global bad
    bad = True
    print(f'{nm}: expected {exp}, observed {got}')

got, exp = q.iloc[0:2], ref.iloc[0:2]
if list(got.dtypes.values) != list(exp.dtypes.values):
    report('iloc[0:2].dtypes', list(got.dtypes.values), list(exp.dtypes.values))
got, exp = q.loc['r0':'r2', 'a'], ref.loc['r0':'r2', 'a']
if got.dtype != exp.dtype:
    report("loc['r0':'r2', 'a'].dtype", got.dtype, exp.dtype)
got, exp = q.loc['r3'], ref.loc['r3']
if got.dtype != exp.dtype:
    report("loc['r3'] (row of member f1) dtype", f'{got.dtype} {got.values.tolist()}', f'{exp.dtype} {exp.values.tolist()}')
got, exp = q.loc['r0', 'a'], ref.loc['r0', 'a']
if type(got) != type(exp):
    report("loc['r0', 'a'] element type", type(got).__name__, type(exp).__name__)
got = [a.dtype for a in q.iter_array(axis=1)]
exp = [a.dtype for a in ref.iter_array(axis=1)]
if got != exp:
    report('iter_array(axis=1) dtypes', got, exp)
got = [w.dtypes.values.tolist() for w in q.iter_window(size=2)]
exp = [w.dtypes.values.tolist() for w in ref.iter_window(size=2)]
if got != exp:
    report('iter_window(size=2) dtypes', got, exp)

print('VIOLATION (dtype only; values are equal)' if bad else 'ok')
sys.exit(1 if bad else 0)
