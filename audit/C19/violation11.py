'''C19 (metadata): the name of the members' index along the Quilt axis is dropped: Frame.from_concat of members
whose index is named 'key' has index.name == 'key'; Quilt.index.name is None (retain_labels=False). Frames / Series
extracted from the Quilt do carry the name, so Quilt.index differs from Quilt.to_frame().index in this respect.'''
import sys, os, tempfile
sys.path.insert(0, sys.argv[1])
import numpy as np
import static_frame as sf
assert sf.__file__.startswith(sys.argv[1]), sf.__file__

bad = False
tmp = tempfile.mkdtemp(prefix='c19v_', dir='/dev/shm' if os.path.isdir('/dev/shm') else None)
import atexit, shutil; atexit.register(shutil.rmtree, tmp, True)
frames = [sf.Frame(np.arange(4).reshape(2, 2) + 10 * i, index=sf.Index([f'r{2*i}', f'r{2*i+1}'], name='key'), columns=['a', 'b'], name=f'f{i}') for i in range(2)]
fp = os.path.join(tmp, 'n.zip')
sf.Bus.from_frames(frames).to_zip_pickle(fp)
ref = sf.Frame.from_concat(frames)
q = sf.Quilt.from_zip_pickle(fp, retain_labels=False, max_persist=1)
for nm, fn in (('index.name', lambda x: x.index.name), ("['a'].index.name", lambda x: x['a'].index.name), ('iloc[1:3].index.name', lambda x: x.iloc[1:3].index.name), ('to_frame().index.name', lambda x: (x.to_frame() if isinstance(x, sf.Quilt) else x).index.name)):
    exp, got = fn(ref), fn(q)
    if exp != got:
        bad = True; print(f'{nm}: expected {exp!r}, observed {got!r}')

print('VIOLATION (index name only)' if bad else 'ok')
sys.exit(1 if bad else 0)
