'''C19: iteration in the direction of the Quilt axis is refused: for an axis-0 Quilt every column iterator
(iter_array/iter_series/iter_tuple and *_items with axis=0) and the dict-like Quilt.items() raise
NotImplementedAxis; symmetrically for row iterators of an axis-1 Quilt. The concatenated Frame answers all of them.
(An explicit refusal, not a wrong answer.)'''
import sys, os, tempfile
sys.path.insert(0, sys.argv[1])
import numpy as np
import static_frame as sf
assert sf.__file__.startswith(sys.argv[1]), sf.__file__

bad = False
tmp = tempfile.mkdtemp(prefix='c19v_', dir='/dev/shm' if os.path.isdir('/dev/shm') else None)
import atexit, shutil; atexit.register(shutil.rmtree, tmp, True)
for axis in (0, 1):
    frames = []
    for i in range(2):
        f = sf.Frame(np.arange(6).reshape(2, 3) + 10 * i, index=[f'r{2*i}', f'r{2*i+1}'], columns=['a', 'b', 'c'], name=f'f{i}')
        frames.append(f if axis == 0 else f.T.rename(f'f{i}'))
    fp = os.path.join(tmp, f'i{axis}.zip')
    sf.Bus.from_frames(frames).to_zip_pickle(fp)
    ref = sf.Frame.from_concat(frames, axis=axis)
    q = sf.Quilt.from_zip_pickle(fp, axis=axis, retain_labels=False, max_persist=1)
    calls = [(f'{n}(axis={axis})', (lambda n: lambda x: [v for v in getattr(x, n)(axis=axis)])(n)) for n in ('iter_array', 'iter_array_items', 'iter_series', 'iter_series_items', 'iter_tuple', 'iter_tuple_items')]
    if axis == 0:
        calls.append(('items()', lambda x: [(k, v.values.tolist()) for k, v in x.items()]))
    for nm, fn in calls:
        exp = fn(ref)
        try:
            fn(q)
        except Exception as e:
            bad = True
            print(f'axis-{axis} Quilt {nm}: the Frame yields {len(exp)} items, observed {type(e).__name__}')

print('VIOLATION (explicit refusal)' if bad else 'ok')
sys.exit(1 if bad else 0)
