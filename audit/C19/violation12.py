'''C19: Batch.apply / apply_items with a function whose result is a list (or an Index) does not yield that result per label:
normalize_container passes it to Series.from_element, which raises ValueError (shape mismatch), so the Batch cannot be
iterated or exported. Other non-container results (tuple, str, dict, scalars) are wrapped as a 1-element Series.'''
import sys, os, tempfile
sys.path.insert(0, sys.argv[1])
import numpy as np
import static_frame as sf
assert sf.__file__.startswith(sys.argv[1]), sf.__file__

bad = False
tmp = tempfile.mkdtemp(prefix='c19v_', dir='/dev/shm' if os.path.isdir('/dev/shm') else None)
import atexit, shutil; atexit.register(shutil.rmtree, tmp, True)
frames = [sf.Frame(np.arange(6).reshape(3, 2) + 10 * i, index=['x', 'y', 'z'], columns=['a', 'b'], name=f'f{i}') for i in range(2)]
fp = os.path.join(tmp, 'l.zip')
sf.Bus.from_frames(frames).to_zip_pickle(fp)
def batch():
    return sf.Batch(sf.Bus.from_zip_pickle(fp, max_persist=1).items())
# control: a tuple result is delivered
assert [v.values.tolist() for _, v in batch().apply(lambda f: f.shape).items()] == [[(3, 2)], [(3, 2)]]
for nm, fn in (('lambda f: f.columns.values.tolist()', lambda f: f.columns.values.tolist()), ('lambda f: f.index', lambda f: f.index)):
    try:
        got = list(batch().apply(fn).items())
        print(nm, '->', [(k, v.values.tolist()) for k, v in got])
    except Exception as e:
        bad = True
        print(f'apply({nm}): expected one result per label, observed {type(e).__name__}: {e}')

print('VIOLATION' if bad else 'ok')
sys.exit(1 if bad else 0)
