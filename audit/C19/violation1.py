'''C19: Quilt(axis=1).iter_series/iter_array/iter_tuple(axis=0).apply(...) labels its result with the
constructor of the ROW index instead of the column index (node_iter.IterNode.get_delegate only
special-cases Frame).'''
import sys, os, tempfile
sys.path.insert(0, sys.argv[1])
import numpy as np
import static_frame as sf
assert sf.__file__.startswith(sys.argv[1]), sf.__file__

bad = False
tmp = tempfile.mkdtemp(prefix='c19v_', dir='/dev/shm' if os.path.isdir('/dev/shm') else None)
import atexit, shutil; atexit.register(shutil.rmtree, tmp, True)

# case A: hierarchical row labels (opposite axis), flat column labels
ih = sf.IndexHierarchy.from_product(('a', 'b'), (1, 2))
frames = [sf.Frame(np.arange(8).reshape(4, 2) + 10 * i, index=ih, columns=[f'c{i}0', f'c{i}1'], name=f'f{i}') for i in range(2)]
fp = os.path.join(tmp, 'a.zip')
sf.Bus.from_frames(frames).to_zip_pickle(fp)
for mp in (None, 1):
    q = sf.Quilt.from_zip_pickle(fp, axis=1, retain_labels=False, max_persist=mp)
    ref = sf.Frame.from_concat(frames, axis=1)
    exp = ref.iter_series(axis=0).apply(lambda s: s.sum())
    got = q.iter_series(axis=0).apply(lambda s: s.sum())
    if not got.index.equals(exp.index, compare_class=True):
        bad = True
        print(f'A (max_persist={mp}): expected labels {exp.index.values.tolist()} ({exp.index.__class__.__name__})')
        print(f'                     observed labels {got.index.values.tolist()} ({got.index.__class__.__name__})')

# case B: retain_labels=True, flat row labels: columns are an IndexHierarchy, result must be too
frames = [sf.Frame(np.arange(6).reshape(3, 2) + 10 * i, index=['x', 'y', 'z'], columns=[f'c{i}0', f'c{i}1'], name=f'f{i}') for i in range(2)]
fp = os.path.join(tmp, 'b.zip')
sf.Bus.from_frames(frames).to_zip_pickle(fp)
q = sf.Quilt.from_zip_pickle(fp, axis=1, retain_labels=True, max_persist=1)
ref = sf.Frame.from_concat_items(((f.name, f) for f in frames), axis=1)
for name in ('iter_series', 'iter_array', 'iter_tuple'):
    exp = getattr(ref, name)(axis=0).apply(lambda s: len(s))
    got = getattr(q, name)(axis=0).apply(lambda s: len(s))
    if not got.index.equals(exp.index, compare_class=True):
        bad = True
        print(f'B {name}: expected {exp.index.__class__.__name__} depth {exp.index.depth}; observed {got.index.__class__.__name__} depth {got.index.depth}')

print('VIOLATION' if bad else 'ok')
sys.exit(1 if bad else 0)
