'''
Batch.apply_except / apply_items_except on a process pool silence errors of the pool machinery, not only errors raised
by the function: with a function that cannot be pickled (a closure / lambda) and a broad exception class
(Exception; or the class of the pickling error itself) every task "fails" at submission, every label is dropped and the result is an EMPTY
Batch -- no error. The sequential Batch and the thread pool return all labels; plain Batch.apply() on a
process pool raises the pickling error.
'''
import sys, os
root = os.path.abspath(sys.argv[1])
sys.path.insert(0, root)
import numpy as np
import static_frame as sf
assert sf.__file__.startswith(root), sf.__file__
from static_frame import Frame, Batch

def items():
    return [(k, Frame(np.arange(6).reshape(3, 2) * m, columns=('a', 'b'), name=k)) for m, k in enumerate('xyz', 1)]

def outcome(fn):
    try:
        return ('labels', list(fn()))
    except Exception as e:
        return ('ERROR', e.__class__.__name__, str(e)[:100])

if __name__ == '__main__':
    scale = 2
    func = lambda f: f.sum() * scale # a closure: cannot be pickled
    func_items = lambda k, f: f.sum() * scale

    expected = outcome(lambda: Batch(items()).apply_except(func, Exception).keys())
    print('expected (sequential)                  :', expected)
    print('threads max_workers=2                  :', outcome(lambda: Batch(items(), max_workers=2, use_threads=True).apply_except(func, Exception).keys()))
    print('processes, apply() (no silencing)      :', outcome(lambda: Batch(items(), max_workers=2).apply(func).keys()))
    failed = False
    for max_workers in (1, 2, 4):
        for exception in (Exception, AttributeError):
            a = outcome(lambda: Batch(items(), max_workers=max_workers).apply_except(func, exception).keys())
            b = outcome(lambda: Batch(items(), max_workers=max_workers).apply_items_except(func_items, exception).keys())
            print(f'processes max_workers={max_workers} apply_except(func, {exception.__name__}):', a, '| apply_items_except:', b)
            for observed in (a, b):
                # either the same labels or an error is acceptable; a silently shorter result is not
                if observed[0] == 'labels' and observed != expected:
                    failed = True
    if failed:
        print('VIOLATION: labels silently dropped; a task that could not even be submitted did not surface as an error')
        sys.exit(1)
    print('OK')
