'''
Frame.iter_tuple(axis=...).apply_pool(func) with the default pool kind (processes) fails with a PicklingError for
every Frame whose labels along the iterated axis are valid identifiers (the default constructor is a
namedtuple class 'Axis' created on the fly, which cannot be delivered to another process), while
apply(func) and apply_pool(func, use_threads=True) return the Series. The function itself is a picklable module-level function.
Same for iter_tuple_items and for Quilt.iter_tuple.
'''
import sys, os
root = os.path.abspath(sys.argv[1])
sys.path.insert(0, root)
import numpy as np
import static_frame as sf
assert sf.__file__.startswith(root), sf.__file__
from static_frame import Frame

def total(row):
    return sum(row)

def total_item(pair):
    return sum(pair[1])

def outcome(fn):
    try:
        s = fn()
        return ('Series', s.to_pairs())
    except Exception as e:
        return ('ERROR', e.__class__.__name__, str(e)[:110])

if __name__ == '__main__':
    f = Frame(np.arange(12).reshape(4, 3), index=tuple('wxyz'), columns=('a', 'b', 'c'), name='f')
    failed = False
    for axis in (0, 1):
        expected = outcome(lambda: f.iter_tuple(axis=axis).apply(total))
        threads = outcome(lambda: f.iter_tuple(axis=axis).apply_pool(total, max_workers=2, use_threads=True))
        print(f'axis={axis} expected (apply)        :', expected)
        print(f'axis={axis} apply_pool threads      :', threads)
        for max_workers, chunksize in ((1, 1), (2, 1), (3, 2), (8, 5)):
            observed = outcome(lambda: f.iter_tuple(axis=axis).apply_pool(total, max_workers=max_workers, chunksize=chunksize))
            observed_items = outcome(lambda: f.iter_tuple_items(axis=axis).apply_pool(total_item, max_workers=max_workers, chunksize=chunksize))
            print(f'axis={axis} apply_pool processes max_workers={max_workers} chunksize={chunksize}:', observed)
            if observed != expected or observed_items != expected or threads != expected:
                failed = True
    if failed:
        print('VIOLATION: process pool does not return what the sequential form returns')
        sys.exit(1)
    print('OK')
