'''
A process pool started (fork) by one thread while another thread is inside a lazily filled cache update
(holding static_frame.core.util.CACHE_UPDATE_LOCK) yields workers that inherit the lock in the held state:
the first worker task that reads a not-yet-read IndexHierarchy blocks forever; no error ever surfaces.

Schedule (sys.settrace + threading.Event), two tasks of a thread pool (apply_pool(use_threads=True)):
  "holder": reads ih.values of a fresh IndexHierarchy; paused inside IndexLevel.to_type_blocks, i.e. inside
            IndexHierarchy._update_array_cache with the lock held   (mode "inside")
            or paused before touching the index, lock not held       (mode "outside", the control)
  "forker": while the holder is paused: Batch(items, max_workers=1).apply(func).to_frame() on a process pool,
            func reads f.index.values of Frames with a hierarchical index.
Expected: both modes deliver [[4], [4]]. The scenario runs in a child process that is killed after 25 s.
'''
import sys, os, subprocess, signal

def child(root, mode):
    import threading
    sys.path.insert(0, root)
    import numpy as np
    import static_frame as sf
    assert sf.__file__.startswith(root), sf.__file__
    from static_frame import Frame, Batch, Series, IndexHierarchy

    ev_holding = threading.Event()
    ev_release = threading.Event()

    def tracer(frame, event, arg):
        if frame.f_code.co_name == 'to_type_blocks' and not ev_holding.is_set():
            ev_holding.set()
            ev_release.wait(10)
        return None

    def items():
        for i, label in enumerate('ab'):
            yield label, Frame(np.arange(8).reshape(4, 2) + i,
                    index=IndexHierarchy.from_product((1, 2), ('x', 'y')),
                    name=label)

    def task(kind):
        if kind == 'holder':
            ih = IndexHierarchy.from_product(('p', 'q'), (1, 2))
            if mode == 'inside':
                sys.settrace(tracer)
            else:
                ev_holding.set()
                ev_release.wait(10)
            try:
                return len(ih.values)
            finally:
                sys.settrace(None)
        ev_holding.wait(10)
        try:
            return Batch(items(), max_workers=1).apply(worker_func).to_frame().values.tolist()
        finally:
            ev_release.set()

    post = Series(('holder', 'forker')).iter_element().apply_pool(
            task, max_workers=2, use_threads=True, dtype=object)
    print(post.values.tolist())

def worker_func(f):
    return len(f.index.values)

if __name__ == '__main__':
    if len(sys.argv) > 2 and sys.argv[2] == '--child':
        child(os.path.abspath(sys.argv[1]), sys.argv[3])
        sys.exit(0)

    root = os.path.abspath(sys.argv[1])
    results = {}
    for mode in ('outside', 'inside'):
        p = subprocess.Popen([sys.executable, '-W', 'ignore', os.path.abspath(__file__), root, '--child', mode],
                stdout=subprocess.PIPE, stderr=subprocess.STDOUT, start_new_session=True, text=True)
        try:
            out, _ = p.communicate(timeout=25)
            results[mode] = out.strip().splitlines()[-1] if out.strip() else f'no output, exit {p.returncode}'
        except subprocess.TimeoutExpired:
            os.killpg(p.pid, signal.SIGKILL)
            p.communicate()
            results[mode] = 'HANG (no result and no error after 25 s; killed)'
    expected = '[4, [[4], [4]]]'
    print('expected (both modes)            :', expected)
    print('observed, lock not held at fork  :', results['outside'])
    print('observed, lock held at fork      :', results['inside'])
    if results['outside'] == expected and results['inside'] != expected:
        print('VIOLATION: the pooled Batch never returns when its workers are forked while another thread fills a cache')
        sys.exit(1)
    if results['outside'] != expected:
        print('control failed; inconclusive')
        sys.exit(0)
    print('OK')
    sys.exit(0)
