'''
Bus.items() / Bus.values (max_persist=None) update and read the lazily filled cache without
CACHE_UPDATE_LOCK, while Bus[label] does so under the lock on a copy of the bookkeeping.
Forced schedule (sys.settrace + threading.Event), two tasks of one thread pool sharing a lazily loaded Bus:
  task "single": bus['q']         -> paused just before it commits its (stale) copy of the cache
  task "all":    list(bus.items()) -> loads everything, paused before reading self._series
  "single" commits (only 'q' loaded), then "all" reads self._series -> FrameDeferred leaks out.
'''
import sys, os, threading, linecache
root = sys.argv[1]
sys.path.insert(0, root)
import numpy as np
import static_frame as sf
assert sf.__file__.startswith(root), sf.__file__
from static_frame import Frame, Bus, Series

fp = f'/dev/shm/c18_violation_bus_{os.getpid()}.zip'
Bus.from_frames([Frame(np.arange(4).reshape(2, 2) * m, name=k) for m, k in enumerate('pqr', 1)]).to_zip_pickle(fp)

def run(forced):
    bus = Bus.from_zip_pickle(fp)
    ev_single_ready = threading.Event()
    ev_all_updated = threading.Event()
    ev_single_committed = threading.Event()
    WAIT = 3

    def tracer_single(frame, event, arg):
        if frame.f_code.co_name != '_update_series_cache_iloc':
            return None
        def local(frame, event, arg):
            if event == 'line':
                src = linecache.getline(frame.f_code.co_filename, frame.f_lineno)
                if 'self._loaded = loaded' in src and not ev_single_ready.is_set():
                    ev_single_ready.set()
                    ev_all_updated.wait(WAIT)
            elif event == 'return':
                ev_single_committed.set()
            return local
        return local

    def tracer_all(frame, event, arg):
        if frame.f_code.co_name != 'items' or not frame.f_code.co_filename.endswith('bus.py'):
            return None
        def local(frame, event, arg):
            if event == 'line':
                src = linecache.getline(frame.f_code.co_filename, frame.f_lineno)
                if 'self._series.items()' in src and not ev_all_updated.is_set():
                    ev_all_updated.set()
                    ev_single_committed.wait(WAIT)
            return local
        return local

    def task(kind):
        if kind == 'single':
            if forced: sys.settrace(tracer_single)
            try:
                return bus['q'].__class__.__name__
            finally:
                sys.settrace(None)
        else:
            if forced:
                ev_single_ready.wait(WAIT)
                sys.settrace(tracer_all)
            try:
                return tuple(v.__class__.__name__ for _, v in bus.items())
            finally:
                sys.settrace(None)

    s = Series(('single', 'all'), index=('t1', 't2'))
    if forced:
        return s.iter_element().apply_pool(task, max_workers=2, use_threads=True, dtype=object)
    return s.iter_element().apply(task, dtype=object)

try:
    exp = run(False).to_pairs()
    got = run(True).to_pairs()
finally:
    os.unlink(fp)
print('expected (sequential):', exp)
print('observed (threads, forced schedule):', got)
if exp != got:
    print('VIOLATION: Bus.items() handed out FrameDeferred placeholders to a pool task')
    sys.exit(1)
print('OK')
sys.exit(0)
