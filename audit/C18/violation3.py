'''
C18 violation: Batch.apply_except on a process pool silently drops a label whose function succeeded,
because the pickling error of the pool (result or argument cannot be transferred) is caught by the
same `except exception` as the function's own exceptions (Batch._apply_pool_except, batch.py).

Case A: the function returns a Series holding an object that cannot be pickled (a lambda).
Case B: one input Frame holds an object that cannot be pickled.
In both cases the function raises nothing; the sequential form (and the thread form) keep every
label. The process form returns a shorter Batch and raises nothing.
'''
import sys
sys.path.insert(0, sys.argv[1])
import os
import numpy as np
import static_frame as sf


def func_a(f):
    if f.name == 'f2':
        return sf.Series([(lambda: 1), 2], index=('x', 'y'))
    return f.sum()

def func_b(f):
    return f.shape[0]


def labels(batch):
    try:
        return [k for k, _ in batch.items()]
    except Exception as e: # loud failure is acceptable
        return e

def main():
    assert sf.__file__.startswith(os.path.abspath(sys.argv[1]))
    frames = [sf.Frame(np.arange(4).reshape(2, 2) + i, columns=('x', 'y'), name=f'f{i}') for i in range(6)]
    frames_b = list(frames)
    frames_b[3] = sf.Frame.from_records([(1, (lambda: 0)), (2, None)], columns=('x', 'y'), name='f3')

    status = 0
    for case, fs, fn in (('A: unpicklable result', frames, func_a), ('B: unpicklable input', frames_b, func_b)):
        items = lambda: ((f.name, f) for f in fs)
        seq = labels(sf.Batch(items()).apply_except(fn, Exception))
        thr = labels(sf.Batch(items(), max_workers=2, use_threads=True).apply_except(fn, Exception))
        prc = labels(sf.Batch(items(), max_workers=2, use_threads=False).apply_except(fn, Exception))
        print(case)
        print('  sequential          :', seq)
        print('  threads, 2 workers  :', thr)
        print('  processes, 2 workers:', prc if not isinstance(prc, Exception) else repr(prc))
        if not isinstance(prc, Exception) and prc != seq:
            print('  VIOLATION: a label whose function did not raise is silently missing from the pooled result')
            status = 1
    if status == 0:
        print('ok')
    return status

if __name__ == '__main__':
    sys.exit(main())
