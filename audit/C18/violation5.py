'''
C18 violation: a pooled Batch consumes its whole source before (or while) functions run, the
sequential Batch pulls one item, applies the function, then pulls the next. When the source yields a
grow-only Frame that it keeps growing between yields, the pooled function sees later states.

Source: a generator that adds one column to a FrameGO per step and yields (label, frame) each time.
Function: number of columns (after a short sleep on threads, so that the order is fixed).
Expected (sequential, max_workers=None): step0..step3 -> 1, 2, 3, 4.
Observed: threads -> 4, 4, 4, 4 ; processes -> every value is the final width too (arguments are pickled
by the pool's feeder thread after Executor.map has drained the source). No error is raised.
Cause: Batch._apply_pool / _apply_pool_except hand the lazy `arg_iter` to Executor.map / submit,
which drain it eagerly (batch.py, gen_pool()).
'''
import sys
sys.path.insert(0, sys.argv[1])
import os, time
import numpy as np
import static_frame as sf


def ncols(f):
    time.sleep(0.05)
    return f.shape[1]

def source():
    f = sf.FrameGO(index=('a', 'b'))
    for i in range(4):
        f[f'c{i}'] = i
        yield f'step{i}', f

def run(**kw):
    try:
        return [(k, int(v.values[0])) for k, v in sf.Batch(source(), **kw).apply(ncols).items()]
    except Exception as e:
        return e

def main():
    assert sf.__file__.startswith(os.path.abspath(sys.argv[1]))
    seq = run()
    thr = run(max_workers=2, use_threads=True)
    prc = run(max_workers=2, use_threads=False)
    print('sequential          :', seq)
    print('threads, 2 workers  :', thr)
    print('processes, 2 workers:', prc)
    status = 0
    for name, got in (('threads', thr), ('processes', prc)):
        if not isinstance(got, Exception) and got != seq:
            print(f'VIOLATION ({name}): results paired with the labels differ from the sequential form')
            status = 1
    if status == 0:
        print('ok')
    return status

if __name__ == '__main__':
    sys.exit(main())
