'''
C18 violation: tasks of a thread pool that read the same lazily loaded Bus.

Expected: Series.iter_element().apply_pool(func, use_threads=True) returns the same Series as
.apply(func) when func looks a Frame up in a store-backed Bus (a read-only operation for the user).
Observed: Bus._update_series_cache_iloc publishes its bookkeeping in several steps
(self._loaded = ..., then self._series = ...) without any lock, and Bus._extract_loc reads
self._series again after the update. A second pool thread that runs between the two assignments sees
"already loaded", skips the load and is handed the FrameDeferred placeholder class instead of a Frame:
the task fails with AttributeError although the sequential form succeeds.

The schedule is enforced deterministically: a line tracer pauses the first pool thread directly after
`self._loaded = loaded` until the other task has finished its lookup.
'''
import sys
sys.path.insert(0, sys.argv[1])
import os, tempfile, shutil, threading, inspect
import numpy as np
import static_frame as sf
from static_frame.core.bus import Bus

assert sf.__file__.startswith(os.path.abspath(sys.argv[1]))

# locate the line that follows `self._loaded = loaded` in Bus._update_series_cache_iloc
src, first = inspect.getsourcelines(Bus._update_series_cache_iloc)
target = None
for i, line in enumerate(src):
    if line.strip() == 'self._loaded = loaded':
        target = first + i + 1
if target is None:
    print('cannot locate commit line in Bus._update_series_cache_iloc; schedule cannot be enforced')
    sys.exit(0)

paused = threading.Event()      # first thread is between the two assignments
other_done = threading.Event()  # the other task finished its lookup
state = {'pauser': None}
lock = threading.Lock()

def local_trace(frame, event, arg):
    if event == 'line' and frame.f_lineno == target:
        with lock:
            first_here = state['pauser'] is None
            if first_here:
                state['pauser'] = threading.get_ident()
        if first_here:
            paused.set()
            other_done.wait(timeout=5)
    return local_trace

def global_trace(frame, event, arg):
    if frame.f_code is Bus._update_series_cache_iloc.__code__:
        return local_trace
    return None

def lookup(bus, label):
    me = threading.get_ident()
    if label == 'second':
        # start only when the first task is paused inside the commit
        paused.wait(timeout=5)
    try:
        f = bus['f0']
        return int(f.values.sum())
    finally:
        if label == 'second':
            other_done.set()

def main():
    tmp = tempfile.mkdtemp(dir='/dev/shm' if os.path.isdir('/dev/shm') else None)
    try:
        fp = os.path.join(tmp, 'b.zip')
        frames = [sf.Frame(np.full((2, 2), i + 1), name=f'f{i}') for i in range(3)]
        sf.Bus.from_frames(frames).to_zip_pickle(fp)

        tasks = sf.Series(['first', 'second'])

        bus_seq = sf.Bus.from_zip_pickle(fp)
        seq = tasks.iter_element().apply(lambda label: int(bus_seq['f0'].values.sum()))

        bus = sf.Bus.from_zip_pickle(fp)
        threading.settrace(global_trace)
        try:
            try:
                par = tasks.iter_element().apply_pool(
                        lambda label: lookup(bus, label),
                        max_workers=2,
                        use_threads=True)
            except Exception as e:
                par = e
        finally:
            threading.settrace(None)

        print('sequential apply      :', seq.values.tolist())
        if isinstance(par, Exception):
            print('apply_pool (2 threads):', repr(par))
            print('VIOLATION: the pooled form fails (a task was handed FrameDeferred) where the sequential form succeeds')
            return 1
        print('apply_pool (2 threads):', par.values.tolist())
        if not par.equals(seq):
            print('VIOLATION: results differ')
            return 1
        print('ok: pooled and sequential results are equal')
        return 0
    finally:
        shutil.rmtree(tmp)

if __name__ == '__main__':
    sys.exit(main())
