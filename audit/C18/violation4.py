'''
C18 violation: Batch.sample(seed=...) (and any pooled function that calls Frame/Series/Index.sample
with a seed) on a THREAD pool returns samples that differ from the sequential form.

util.array_sample implements a seeded sample as
    state = np.random.get_state(); np.random.seed(seed); np.random.choice(...); np.random.set_state(state)
on the process-global NumPy generator, without a lock. When two pool threads interleave between
seed() and choice(), the second draw continues the first thread's stream (or the restored stream)
instead of starting at the seed. The result is a silently different selection of rows.

Expected: Batch(..., max_workers=2, use_threads=True).sample(4, seed=7) selects, for every label, the
same rows as Batch(...).sample(4, seed=7).
Observed: one label gets other rows. The schedule (both threads seed, then both draw) is enforced with
a line tracer on array_sample; without any tracer the mismatch appears in ~4% of runs with 8 workers
and 16 frames at the default switch interval (audit/t_sample.py).
'''
import sys
sys.path.insert(0, sys.argv[1])
import os, threading, inspect
import numpy as np
import static_frame as sf
from static_frame.core import util


def find_lines():
    src, first = inspect.getsourcelines(util.array_sample)
    out = {}
    for i, line in enumerate(src):
        s = line.strip()
        if s.startswith('post = np.random.choice('):
            out['choice'] = first + i
        elif s == 'if sort:':
            out['after_choice'] = first + i
        elif s == 'np.random.set_state(state)':
            out['set_state'] = first + i
    return out

LINES = find_lines()
at_choice = [threading.Event(), threading.Event()]   # thread k has seeded and is about to draw
drawn = [threading.Event(), threading.Event()]        # thread k has drawn
roles = {}
lock = threading.Lock()

def role():
    ident = threading.get_ident()
    with lock:
        if ident not in roles:
            roles[ident] = len(roles)
        return roles[ident]

def local_trace(frame, event, arg):
    if event == 'line':
        r = role()
        if r < 2:
            other = 1 - r
            if frame.f_lineno == LINES['choice']:
                at_choice[r].set()
                at_choice[other].wait(timeout=5) # both have seeded
                if r == 1:
                    drawn[0].wait(timeout=5)     # thread 0 draws first
            elif frame.f_lineno == LINES['after_choice']:
                drawn[r].set()
            elif frame.f_lineno == LINES['set_state'] and r == 0:
                drawn[1].wait(timeout=5)         # do not restore before thread 1 has drawn
    return local_trace

def global_trace(frame, event, arg):
    if frame.f_code is util.array_sample.__code__:
        return local_trace
    return None

def main():
    assert sf.__file__.startswith(os.path.abspath(sys.argv[1]))
    if len(LINES) != 3:
        print('cannot locate lines in array_sample; schedule cannot be enforced')
        return 0
    frames = [sf.Frame(np.arange(200).reshape(100, 2) + i, name=f'f{i}') for i in range(2)]
    items = lambda: ((f.name, f) for f in frames)

    seq = {k: v.index.values.tolist() for k, v in sf.Batch(items()).sample(4, seed=7).items()}

    threading.settrace(global_trace)
    try:
        par = {k: v.index.values.tolist() for k, v in
                sf.Batch(items(), max_workers=2, use_threads=True).sample(4, seed=7).items()}
    finally:
        threading.settrace(None)

    print('sequential Batch.sample(4, seed=7) row labels:', seq)
    print('2 threads  Batch.sample(4, seed=7) row labels:', par)
    if par != seq:
        print('VIOLATION: the pooled, seeded sample differs from the sequential one (no error raised)')
        return 1
    print('ok')
    return 0

if __name__ == '__main__':
    sys.exit(main())
