'''
C18 violation: Batch.apply_except / apply_items_except on a process pool silently drop labels whose
function did NOT fail.

Batch._apply_pool_except wraps `future.result()` in `except exception: continue`. With processes,
future.result() also raises errors of the pool itself. A function that raises a user exception whose
class cannot be re-created from its .args (custom __init__ signature, a very common pattern) breaks the
pool while the exception is transferred back: every other pending / running future then raises
BrokenProcessPool (an Exception subclass). With exception=Exception these are all swallowed.

Expected (sequential form, max_workers=None): only label 'f1' (the one whose function raises) is
skipped: ['f0', 'f2', 'f3', 'f4', 'f5'].
Observed (max_workers=2, use_threads=False): innocent labels are missing too (typically all of them)
and no error is raised.
'''
import sys
sys.path.insert(0, sys.argv[1])
import os, time
import numpy as np
import static_frame as sf


class TaskError(Exception):
    def __init__(self, label, code):
        super().__init__(f'{label} failed with code {code}')
        self.label = label
        self.code = code


def func(f):
    if f.name == 'f1':
        raise TaskError(f.name, 3)
    time.sleep(0.2)
    return f.sum()


def func_items(label, f):
    return func(f)


def main():
    assert sf.__file__.startswith(os.path.abspath(sys.argv[1]))
    frames = [sf.Frame(np.arange(4).reshape(2, 2) + i, columns=('x', 'y'), name=f'f{i}') for i in range(6)]
    items = lambda: ((f.name, f) for f in frames)

    status = 0
    for name, call in (
            ('apply_except', lambda b: b.apply_except(func, Exception)),
            ('apply_items_except', lambda b: b.apply_items_except(func_items, Exception)),
            ):
        seq = [k for k, _ in call(sf.Batch(items())).items()]
        thr = [k for k, _ in call(sf.Batch(items(), max_workers=2, use_threads=True)).items()]
        try:
            prc = [k for k, _ in call(sf.Batch(items(), max_workers=2, use_threads=False)).items()]
        except Exception as e: # an error would be acceptable: it is not silent
            prc = e
        print(name)
        print('  sequential          :', seq)
        print('  threads, 2 workers  :', thr)
        print('  processes, 2 workers:', prc if not isinstance(prc, Exception) else repr(prc))
        if thr != seq:
            print('  VIOLATION (threads): labels differ from the sequential form')
            status = 1
        if not isinstance(prc, Exception) and prc != seq:
            print('  VIOLATION (processes): labels of tasks that did not fail were silently dropped')
            status = 1
    if status == 0:
        print('ok')
    return status

if __name__ == '__main__':
    sys.exit(main())
