'''IndexHierarchy.rehierarch passes the index constructors in the ORIGINAL depth order to the re-ordered labels:
with a typed level the call raises, or silently coerces labels and attaches the index classes to the wrong depths.'''
import sys
root = sys.argv[1] if len(sys.argv) > 1 else '.'
sys.path.insert(0, root)
import numpy as np
import static_frame as sf
assert sf.__file__.startswith(root), sf.__file__

def names(ih):
    return [c.__name__ for c in ih.index_types.values]

bad = 0
ih = sf.IndexHierarchy.from_product(sf.IndexDate(('2020-01-01', '2020-01-02')), ('a', 'b'))
expected = sorted((str(b), str(a)) for a, b in ih)
try:
    r = ih.rehierarch((1, 0))
    got = sorted((str(a), str(b)) for a, b in r)
    print(f'rehierarch((1, 0)): expected labels {expected} types [Index, IndexDate]; observed {got} types {names(r)}')
    if got != expected or names(r) != ['Index', 'IndexDate']:
        bad += 1
except Exception as e:
    print(f'rehierarch((1, 0)) of (IndexDate, Index[str]): expected labels {expected}; observed {e.__class__.__name__}({e})')
    bad += 1

# silent variant: string labels that parse as dates are turned into dates
ih = sf.IndexHierarchy.from_product(sf.IndexDate(('2020-01-01', '2021-02-01')), ('2020-05-01', '2020-06'))
expected = sorted((str(b), str(a)) for a, b in ih)
try:
    r = ih.rehierarch((1, 0))
    got = sorted((str(a), str(b)) for a, b in r)
    print(f'rehierarch((1, 0)): expected labels {expected} types [Index, IndexDate]; observed {got} types {names(r)}')
    if got != expected or names(r) != ['Index', 'IndexDate']:
        bad += 1
except Exception as e:
    print(f'rehierarch((1, 0)): observed {e.__class__.__name__}({e})')
    bad += 1

if bad:
    print(f'VIOLATION ({bad} checks)')
    sys.exit(1)
print('OK')
sys.exit(0)
