'''A full label tuple that is NOT held looks up to the position of another label when the innermost level is an
auto-integer index (as built by Series/Frame.from_concat_items or IndexHierarchy.from_index_items from default indices).'''
import sys
root = sys.argv[1] if len(sys.argv) > 1 else '.'
sys.path.insert(0, root)
import numpy as np
import static_frame as sf
assert sf.__file__.startswith(root), sf.__file__

s = sf.Series.from_concat_items((
        ('a', sf.Series([10, 11])),
        ('b', sf.Series([20, 21, 22])),
        ))
ih = s.index
rows = [tuple(int(x) if isinstance(x, np.integer) else str(x) for x in r) for r in ih]
print('labels held:', rows)

bad = 0
for key in (('a', 2), ('a', 3), ('a', -1), ('b', -1), ('b', -4)):
    held = key in rows
    member = key in ih
    try:
        pos = ih.loc_to_iloc(key)
        looked = f'position {pos} -> value {s[key]}'
        ok = held
    except KeyError as e:
        looked = 'KeyError'
        ok = not held
    print(f'key {key}: held={held} `in`={member}; expected KeyError; observed {looked}')
    if not ok or member != held:
        bad += 1

# a list of tuples containing an unheld label
try:
    r = ih.loc_to_iloc([('a', 1), ('a', 4)])
    print(f"loc_to_iloc([('a', 1), ('a', 4)]): expected KeyError; observed {r}")
    bad += 1
except KeyError:
    print("loc_to_iloc([('a', 1), ('a', 4)]): KeyError (expected)")

if bad:
    print(f'VIOLATION: {bad} unheld keys resolved to positions of other labels')
    sys.exit(1)
print('OK')
sys.exit(0)
