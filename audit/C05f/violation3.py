'''Index bijection on IndexDate (and the other datetime indices): membership is True for a key that is not a held label
(a coarser-unit string such as '2020-01') exactly when the first instant of that period happens to be held, and the key that
is `in` the index looks up to several positions (or to none), not to its own position.'''
import sys
root = sys.argv[1] if len(sys.argv) > 1 else '.'
sys.path.insert(0, root)
import numpy as np
import static_frame as sf
assert sf.__file__.startswith(root), sf.__file__

idx = sf.IndexDate(('2020-01-01', '2020-01-02', '2020-03-05'))
print('labels:', [str(x) for x in idx])
bad = 0
answers = {}
for key in ('2020-01', '2020-03', '2020', np.datetime64('2020-01'), np.datetime64('2020-03')):
    member = key in idx
    answers[str(key)] = member
    pos = idx.loc_to_iloc(key)
    single = isinstance(pos, (int, np.integer))
    print(f'{key!r} in idx -> {member}; loc_to_iloc -> {pos!r}')
    if member and not single:
        print('   expected: a key that is a member looks up to exactly one position (or: a key that is not a held label is not a member)')
        bad += 1
if answers['2020-01'] != answers['2020-03']:
    print("'2020-01' and '2020-03' both select days of the index but membership differs:", answers['2020-01'], answers['2020-03'])
    bad += 1

# same through a hierarchy
ih = sf.IndexHierarchy.from_labels(((1, '2020-01-01'), (1, '2020-01-02'), (2, '2020-03-05')), index_constructors=(sf.Index, sf.IndexDate))
key = (1, '2020-01')
member = key in ih
try:
    pos = ih.loc_to_iloc(key)
except Exception as e:
    pos = f'{e.__class__.__name__}()'
print(f'{key!r} in ih -> {member}; loc_to_iloc -> {pos}')
if member and not isinstance(pos, (int, np.integer)):
    print('   expected: member tuples look up to their single position')
    bad += 1

if bad:
    print(f'VIOLATION ({bad} checks)')
    sys.exit(1)
print('OK')
sys.exit(0)
