'''union of two IndexHierarchy whose labels cannot be ordered (None next to other labels in a level) returns the rows in
set order and then fails to build the tree: ErrorInitIndex "invalid tree-form" (also from Series arithmetic on such indices).'''
import sys
root = sys.argv[1] if len(sys.argv) > 1 else '.'
sys.path.insert(0, root)
import numpy as np
import static_frame as sf
assert sf.__file__.startswith(root), sf.__file__

bad = 0
for la, lb in (
        # labels are ints and None only, so that hash (set) order does not depend on PYTHONHASHSEED
        ([(None, 1), (None, 2), (5, 1)], [(5, 1), (5, 2), (7, 3)]),
        ([(1, None), (1, 2), (5, None)], [(5, None), (5, 2), (7, 3)]),
        ([(0, None), (0, 1), (8, None), (8, 1), (16, None)], [(8, 1), (16, None), (24, 1)]),
        ):
    a = sf.IndexHierarchy.from_labels(la)
    b = sf.IndexHierarchy.from_labels(lb)
    expected = set(la) | set(lb)
    try:
        r = a.union(b)
        got = set(tuple(x.item() if isinstance(x, np.generic) else x for x in row) for row in r)
        print(f'union: expected the {len(expected)} labels {sorted(expected, key=repr)}; observed {sorted(got, key=repr)}')
        if got != expected or len(r) != len(expected):
            bad += 1
    except Exception as e:
        print(f'union of {la} and {lb}: expected {len(expected)} labels; observed {e.__class__.__name__}({e})')
        bad += 1
if bad:
    print(f'VIOLATION ({bad} checks)')
    sys.exit(1)
print('OK')
sys.exit(0)
