'''A label slice with a negative step at the innermost depth of an HLoc is not confined to the sub-tree of each parent:
positions of other sub-trees are returned, some twice.'''
import sys
root = sys.argv[1] if len(sys.argv) > 1 else '.'
sys.path.insert(0, root)
import numpy as np
import static_frame as sf
assert sf.__file__.startswith(root), sf.__file__
HLoc = sf.HLoc

rows = [('a', 1), ('a', 2), ('b', 1), ('b', 2), ('b', 3)]
ih = sf.IndexHierarchy.from_labels(rows)

def tolist(r):
    if isinstance(r, slice):
        return list(range(*r.indices(len(rows))))
    if isinstance(r, (int, np.integer)):
        return [int(r)]
    return [int(x) for x in r]

bad = 0
for key, expected in (
        (HLoc[:, ::-1], [1, 0, 4, 3, 2]),
        (HLoc['a', ::-1], [1, 0]),
        (HLoc[:, 2::-1], [1, 0, 3, 2]),
        (HLoc[['b', 'a'], ::-1], [4, 3, 2, 1, 0]),
        ):
    try:
        got = tolist(ih.loc_to_iloc(key))
    except Exception as e:
        got = f'{e.__class__.__name__}({e})'
    print(f'HLoc{key.key}: expected {expected} observed {got}')
    if got != expected:
        bad += 1
if bad:
    print(f'VIOLATION ({bad} checks)')
    sys.exit(1)
print('OK')
sys.exit(0)
