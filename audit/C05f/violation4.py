'''An auto-integer index (the default index of a Series/Frame) used as an OUTER level of IndexHierarchy.from_product:
negative integers, which are not labels, look up to positions (and select data), although `in` says they are not held;
a list selector containing an unheld integer raises IndexError instead of selecting the held ones.'''
import sys
root = sys.argv[1] if len(sys.argv) > 1 else '.'
sys.path.insert(0, root)
import numpy as np
import static_frame as sf
assert sf.__file__.startswith(root), sf.__file__

auto = sf.Series((1, 2, 3)).index # labels 0, 1, 2
ih = sf.IndexHierarchy.from_product(auto, ('x', 'y'))
s = sf.Series(np.arange(6) * 10, index=ih)
print('labels held:', [(int(a), str(b)) for a, b in ih])
bad = 0
for key in ((-1, 'x'), (-3, 'y')):
    member = key in ih
    try:
        pos = ih.loc_to_iloc(key)
        print(f'{key}: `in`={member}; expected KeyError; observed position {pos}, series value {s[key]}, HLoc position {ih.loc_to_iloc(sf.HLoc[key])}')
        bad += 1
    except KeyError:
        print(f'{key}: `in`={member}; KeyError (expected)')

try:
    r = ih.loc_to_iloc(sf.HLoc[[0, 5], 'x'])
    r = [int(x) for x in (r if hasattr(r, '__iter__') else [r])]
    print(f"HLoc[[0, 5], 'x']: expected [0] observed {r}")
    if r != [0]:
        bad += 1
except KeyError as e:
    print(f"HLoc[[0, 5], 'x']: KeyError (acceptable)")
except Exception as e:
    print(f"HLoc[[0, 5], 'x']: expected [0] (the held match); observed {e.__class__.__name__}({e})")
    bad += 1

if bad:
    print(f'VIOLATION ({bad} checks)')
    sys.exit(1)
print('OK')
sys.exit(0)
