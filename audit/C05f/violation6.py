'''Membership on a datetime index (and on a hierarchy with a datetime level) raises ValueError for keys that cannot be
converted to a datetime, instead of answering False.'''
import sys
root = sys.argv[1] if len(sys.argv) > 1 else '.'
sys.path.insert(0, root)
import numpy as np
import static_frame as sf
assert sf.__file__.startswith(root), sf.__file__

idx = sf.IndexDate(('2020-01-01', '2020-01-02'))
ih = sf.IndexHierarchy.from_product(idx, ('x', 'y'))
bad = 0
for container, keys in ((idx, ('abc', 5, True, 2.5, frozenset((1,)))), (ih, (('abc', 'x'), (5, 'x')))):
    for key in keys:
        try:
            r = key in container
            print(f'{key!r} in {container.__class__.__name__}: {r} (expected False)')
            if r is not False and r is not np.False_:
                bad += 1
        except Exception as e:
            print(f'{key!r} in {container.__class__.__name__}: expected False; observed {e.__class__.__name__}({e})')
            bad += 1
if bad:
    print(f'VIOLATION ({bad} checks)')
    sys.exit(1)
print('OK')
sys.exit(0)
