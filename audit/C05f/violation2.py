'''IndexHierarchy with a typed datetime level other than IndexDate (IndexYearMonth, IndexYear, IndexSecond ...):
the tuple presented at a position (ih.iloc[i], a row of ih.values) is not accepted by `in` / loc_to_iloc of the same
index (AttributeError instead of a bool / the position), and Series arithmetic / reindex between two such indices raises.'''
import sys, datetime
root = sys.argv[1] if len(sys.argv) > 1 else '.'
sys.path.insert(0, root)
import numpy as np
import static_frame as sf
assert sf.__file__.startswith(root), sf.__file__

bad = 0
a = sf.IndexHierarchy.from_product(sf.IndexYearMonth(('2020-01', '2020-02')), ('x', 'y'))
b = sf.IndexHierarchy.from_product(sf.IndexYearMonth(('2020-02', '2020-03')), ('x', 'y'))

# 1. membership must answer with a bool, for every hashable key
for key in ((datetime.date(2020, 1, 1), 'x'), (np.datetime64('2020-01-01'), 'x'), ('2020-01-01', 'x'), a.iloc[0]):
    try:
        r = key in a
        print(f'{key!r} in ih: {r!r} (a bool, as expected)')
        if not isinstance(r, (bool, np.bool_)):
            bad += 1
    except AttributeError as e:
        print(f'{key!r} in ih: expected a bool; observed AttributeError({e})')
        bad += 1

# 2. every position's tuple looks up to that position
for i in range(len(a)):
    key = a.iloc[i]
    try:
        p = a.loc_to_iloc(key)
        if p != i:
            print(f'loc_to_iloc(ih.iloc[{i}]) expected {i} observed {p}')
            bad += 1
    except Exception as e:
        print(f'loc_to_iloc(ih.iloc[{i}]={key!r}): expected {i}; observed {e.__class__.__name__}({e})')
        bad += 1

# 3. aligned arithmetic / reindex between two such Series
s1 = sf.Series(np.arange(4), index=a)
s2 = sf.Series(np.arange(4) * 10, index=b)
expected = [None, None, 2.0, 13.0, None, None]
try:
    r = s1 + s2
    got = [None if v != v else float(v) for v in r.values]
    print(f's1 + s2: expected {expected} observed {got}')
    if got != expected:
        bad += 1
except Exception as e:
    print(f's1 + s2: expected {expected}; observed {e.__class__.__name__}({e})')
    bad += 1
try:
    r = s1.reindex(b, fill_value=-1)
    print(f's1.reindex(b): expected [2, 3, -1, -1] observed {r.values.tolist()}')
    if r.values.tolist() != [2, 3, -1, -1]:
        bad += 1
except Exception as e:
    print(f's1.reindex(b): expected [2, 3, -1, -1]; observed {e.__class__.__name__}({e})')
    bad += 1

if bad:
    print(f'VIOLATION ({bad} checks)')
    sys.exit(1)
print('OK')
sys.exit(0)
