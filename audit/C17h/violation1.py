'''
C17 violation 1: a Frame whose columns all have a small numeric dtype (float32, float16, uint8, uint16,
uint32, uint64, int8) written to an SQLite store comes back with every value replaced by raw bytes.

Sentence contradicted: "Writing a collection of named Frames to a multi-table store (zipped CSV/TSV/pickle,
SQLite, ...) and opening it again gives the same labels in the same order and, under each label, a Frame equal
to the one written."
(The accepted envelope of SQLite is dtype *widening*, e.g. float32 -> float64; here the values are lost.)

usage: violation1.py <library root>; exit 1 while the violation is present, 0 otherwise
'''
import sys, os, tempfile, shutil
root = sys.argv[1] if len(sys.argv) > 1 else '/tmp/wth_C17'
sys.path.insert(0, root)
import numpy as np
import static_frame as sf
assert sf.__file__.startswith(root), sf.__file__

tmp = tempfile.mkdtemp(dir='/dev/shm' if os.path.isdir('/dev/shm') else None)
bad = []
try:
    config = sf.StoreConfig(index_depth=1)
    for dtype in (np.float32, np.uint8, np.uint16, np.uint32, np.uint64, np.int8, np.float16):
        written = sf.Frame(np.array([[0, 1.5], [2, 3]]).astype(dtype),
                index=('p', 'q'), columns=('x', 'y'), name='f')
        fp = os.path.join(tmp, f'{np.dtype(dtype).name}.sqlite')
        sf.Bus.from_frames((written,)).to_sqlite(fp, config=config)
        got = sf.Bus.from_sqlite(fp, config=config)['f']
        # values must be equal; the dtype may be widened by the format
        ok = (got.shape == written.shape
                and got.index.values.tolist() == ['p', 'q']
                and got.columns.values.tolist() == ['x', 'y']
                and got.values.tolist() == written.values.tolist())
        print(f'{np.dtype(dtype).name:8} expected values {written.values.tolist()} observed {got.values.tolist()} -> {"ok" if ok else "VIOLATION"}')
        if not ok:
            bad.append(np.dtype(dtype).name)
    # columns of different dtypes whose common row dtype is small: the int16 column is lost as well
    written = sf.Frame.from_items((('x', np.array([1.5, 2.5], dtype=np.float32)), ('y', np.array([3, 4], dtype=np.int16))),
            index=('p', 'q'), name='f')
    fp = os.path.join(tmp, 'mixed.sqlite')
    sf.Bus.from_frames((written,)).to_sqlite(fp, config=config)
    got = sf.Bus.from_sqlite(fp, config=config)['f']
    ok = got.values.tolist() == written.values.tolist()
    print(f'float32+int16 expected values {written.values.tolist()} observed {got.values.tolist()} -> {"ok" if ok else "VIOLATION"}')
    if not ok:
        bad.append('float32+int16')
finally:
    shutil.rmtree(tmp, ignore_errors=True)

if bad:
    print('VIOLATION: SQLite store returned raw bytes instead of the numbers written for dtypes', bad)
    sys.exit(1)
print('OK')
sys.exit(0)
