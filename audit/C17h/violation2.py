'''
C17 violation 2: Bus.iloc with a 0-dimensional NumPy integer array as key (e.g. np.array(3), the result of
ndarray.argmax(keepdims=...)/np.asarray(i)) returns the Frame when the Frame is already held (or the Bus is
in memory), but raises TypeError when the Frame still has to be read from the store.

Sentence contradicted: "A Bus opened on a store loads Frames only when accessed, returns for every label and
every access history the same Frame an eager load would return".

usage: violation2.py <library root>; exit 1 while the violation is present, 0 otherwise
'''
import sys, os, tempfile, shutil
root = sys.argv[1] if len(sys.argv) > 1 else '/tmp/wth_C17'
sys.path.insert(0, root)
import numpy as np
import static_frame as sf
assert sf.__file__.startswith(root), sf.__file__

tmp = tempfile.mkdtemp(dir='/dev/shm' if os.path.isdir('/dev/shm') else None)
bad = []
try:
    labels = ('a', 'b', 'c', 'd')
    frames = [sf.Frame(np.arange(6).reshape(2, 3) + i, columns=('x', 'y', 'z'), name=l) for i, l in enumerate(labels)]
    eager = sf.Bus.from_frames(frames)
    fp = os.path.join(tmp, 'store.zip')
    eager.to_zip_pickle(fp)
    key = np.array(2) # 0-dimensional integer array
    expected = eager.iloc[key]
    print('eager Bus, iloc[np.array(2)] ->', 'Frame ' + repr(expected.name))
    for max_persist in (None, 1, 2):
        bus = sf.Bus.from_zip_pickle(fp, max_persist=max_persist)
        try:
            got = bus.iloc[key]
            ok = isinstance(got, sf.Frame) and got.equals(expected)
            print(f'lazy Bus max_persist={max_persist}, iloc[np.array(2)] -> {got.__class__.__name__} {getattr(got, "name", None)!r}: {"ok" if ok else "VIOLATION"}')
        except Exception as e:
            ok = False
            print(f'lazy Bus max_persist={max_persist}, iloc[np.array(2)] -> raised {type(e).__name__}: {e}: VIOLATION')
        if not ok:
            bad.append(max_persist)
        # the same key on the same Bus once the Frame is held
        bus.iloc[2]
        again = bus.iloc[key]
        assert again.equals(expected)
finally:
    shutil.rmtree(tmp, ignore_errors=True)
if bad:
    print('VIOLATION: expected the Frame under label c for every Bus; the lazy Bus raised for max_persist in', bad)
    sys.exit(1)
print('OK')
sys.exit(0)
