'''C17 violation: in zip-csv / zip-tsv stores, spaces at the start of the first field
(a leading space in an index label) and at the end of the last field of a row are stripped.'''
import sys, os, tempfile, warnings
sys.path.insert(0, sys.argv[1])
import static_frame as sf
assert sf.__file__.startswith(os.path.abspath(sys.argv[1])), sf.__file__
warnings.simplefilter('ignore')

tmp = tempfile.mkdtemp(dir='/dev/shm' if os.path.isdir('/dev/shm') else None)
cfg = sf.StoreConfig(index_depth=1)
f = sf.Frame.from_records([['p', 'New York '], ['q', 'Paris']], index=(' x', 'y'), columns=('a', 'city'), name='f')
bad = 0
for fmt in ('csv', 'tsv'):
    fp = os.path.join(tmp, f'v9_{fmt}.zip')
    getattr(sf.Bus.from_frames((f,)), 'to_zip_' + fmt)(fp, config=cfg)
    g = getattr(sf.Bus, 'from_zip_' + fmt)(fp, config=cfg)['f']
    print(f'zip-{fmt}: index written {f.index.values.tolist()} read {g.index.values.tolist()}; city written {f["city"].values.tolist()} read {g["city"].values.tolist()}')
    if not g.equals(f):
        bad += 1
if bad:
    print('VIOLATION: Frame read from the store is not equal to the Frame written (whitespace stripped)')
    sys.exit(1)
print('ok')
