'''C17 violation: a float column that is entirely NaN, written to a zip-csv or zip-tsv
store, comes back as a Boolean column of False (missing values are reported as data); a string
column of only empty strings comes back as 'False' strings.'''
import sys, os, tempfile
sys.path.insert(0, sys.argv[1])
import numpy as np
import static_frame as sf
assert sf.__file__.startswith(os.path.abspath(sys.argv[1])), sf.__file__

tmp = tempfile.mkdtemp(dir='/dev/shm' if os.path.isdir('/dev/shm') else None)
cfg = sf.StoreConfig(index_depth=1)
f = sf.Frame.from_dict(dict(a=(np.nan, np.nan, np.nan), b=(1.5, np.nan, 3.5)), index=('x', 'y', 'z'), name='f')
bad = 0
for fmt in ('csv', 'tsv'):
    fp = os.path.join(tmp, f'v7_{fmt}.zip')
    getattr(sf.Bus.from_frames((f,)), 'to_zip_' + fmt)(fp, config=cfg)
    g = getattr(sf.Bus, 'from_zip_' + fmt)(fp, config=cfg)['f']
    print(f'zip-{fmt}: column a written {f["a"].values.tolist()} ({f["a"].dtype}) read {g["a"].values.tolist()} ({g["a"].dtype}); column b read {g["b"].values.tolist()}')
    if not g.equals(f):
        bad += 1
# same root cause: a string column holding only empty strings comes back as 'False'
f2 = sf.Frame.from_dict(dict(note=('', '', ''), b=('p', 'q', 'r')), index=('x', 'y', 'z'), name='f')
for fmt in ('csv', 'tsv'):
    fp = os.path.join(tmp, f'v7b_{fmt}.zip')
    getattr(sf.Bus.from_frames((f2,)), 'to_zip_' + fmt)(fp, config=cfg)
    g = getattr(sf.Bus, 'from_zip_' + fmt)(fp, config=cfg)['f']
    print(f'zip-{fmt}: column note written {f2["note"].values.tolist()} read {g["note"].values.tolist()}')
    if not g.equals(f2):
        bad += 1
if bad:
    print('VIOLATION: Frame read from the store is not equal to the Frame written (all-missing column -> False)')
    sys.exit(1)
print('ok')
