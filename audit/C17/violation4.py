'''C17 violation: Frames whose values are all float32 (or int8, uint8, uint16, uint32,
uint64, float16) written to an SQLite store come back as raw byte strings, not numbers.
(Only np.int64/int32/int16/bool_ have sqlite adapters; other NumPy scalars are bound
through the buffer protocol as BLOBs.)'''
import sys, os, tempfile
sys.path.insert(0, sys.argv[1])
import numpy as np
import static_frame as sf
assert sf.__file__.startswith(os.path.abspath(sys.argv[1])), sf.__file__

tmp = tempfile.mkdtemp(dir='/dev/shm' if os.path.isdir('/dev/shm') else None)
cfg = sf.StoreConfig(index_depth=1)
bad = 0
for dt in (np.float32, np.int8, np.uint8, np.uint16, np.uint32, np.uint64, np.float16, np.int16, np.int32, np.int64, np.float64):
    f = sf.Frame(np.array([[1, 2], [3, 4]], dtype=dt), index=('x', 'y'), columns=('a', 'b'), name='f')
    fp = os.path.join(tmp, 'v4.sqlite')
    try:
        sf.Bus.from_frames((f,)).to_sqlite(fp, config=cfg)
        g = sf.Bus.from_sqlite(fp, config=cfg)['f']
        ok = g.equals(f)
        print(f'{np.dtype(dt).name:8s} written {f.values.tolist()} read {g.values.tolist()} equal={ok}')
    except Exception as e:
        ok = False
        print(f'{np.dtype(dt).name:8s} raised {type(e).__name__}: {e}')
    if not ok:
        bad += 1
if bad:
    print('VIOLATION: Frame read from the SQLite store is not equal to the Frame written')
    sys.exit(1)
print('ok')
