'''C17 violation: a float Frame containing NaN written to an SQLite store is not
returned equal: NaN comes back as None and the column dtype becomes object.'''
import sys, os, tempfile
sys.path.insert(0, sys.argv[1])
import numpy as np
import static_frame as sf
assert sf.__file__.startswith(os.path.abspath(sys.argv[1])), sf.__file__

tmp = tempfile.mkdtemp(dir='/dev/shm' if os.path.isdir('/dev/shm') else None)
f = sf.Frame.from_dict(dict(a=(1.5, np.nan, 3.0), b=(np.nan, 2.0, 4.0)), index=('x', 'y', 'z'), name='f')
cfg = sf.StoreConfig(index_depth=1)
fp = os.path.join(tmp, 'v3.sqlite')
sf.Bus.from_frames((f,)).to_sqlite(fp, config=cfg)
g = sf.Bus.from_sqlite(fp, config=cfg)['f']
print('written :', f.values.tolist(), [str(d) for d in f.dtypes.values])
print('read    :', g.values.tolist(), [str(d) for d in g.dtypes.values])
if not g.equals(f):
    print('VIOLATION: Frame read from the SQLite store is not equal to the Frame written (NaN -> None, float64 -> object)')
    sys.exit(1)
print('ok')
