'''C17 violation: string cells containing the "other" delimiter or a quote character
do not survive the delimited zip stores:
 - zip-csv: a cell containing a TAB makes its whole row disappear silently (or, if it is
   the first data row, makes the Frame unreadable with IndexError);
 - zip-tsv: a cell containing a double quote comes back with CSV quoting artefacts.'''
import sys, os, tempfile, warnings
sys.path.insert(0, sys.argv[1])
import numpy as np
import static_frame as sf
assert sf.__file__.startswith(os.path.abspath(sys.argv[1])), sf.__file__
warnings.simplefilter('ignore')

tmp = tempfile.mkdtemp(dir='/dev/shm' if os.path.isdir('/dev/shm') else None)
cfg = sf.StoreConfig(index_depth=1)
bad = 0

f = sf.Frame.from_records([['plain', 'c'], ['tab\there', 'g'], ['last', 'h']], index=('x', 'y', 'z'), columns=('a', 'b'), name='f')
fp = os.path.join(tmp, 'v8.zip')
sf.Bus.from_frames((f,)).to_zip_csv(fp, config=cfg)
try:
    g = sf.Bus.from_zip_csv(fp, config=cfg)['f']
    print(f'zip-csv, TAB inside a cell: written shape {f.shape} index {f.index.values.tolist()} -> read shape {g.shape} index {g.index.values.tolist()}')
    if not g.equals(f):
        bad += 1
except Exception as e:
    print('zip-csv, TAB inside a cell: read raised', type(e).__name__, e)
    bad += 1

f = sf.Frame.from_records([['say "hi"', 'c'], ['e', 'g']], index=('x', 'y'), columns=('a', 'b'), name='f')
sf.Bus.from_frames((f,)).to_zip_tsv(fp, config=cfg)
try:
    g = sf.Bus.from_zip_tsv(fp, config=cfg)['f']
    print(f'zip-tsv, quote inside a cell: written {f.loc["x", "a"]!r} -> read {g.loc["x", "a"]!r}')
    if not g.equals(f):
        bad += 1
except Exception as e:
    print('zip-tsv, quote inside a cell: read raised', type(e).__name__, e)
    bad += 1
if bad:
    print('VIOLATION: Frame read from the store is not equal to the Frame written')
    sys.exit(1)
print('ok')
