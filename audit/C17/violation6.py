'''C17 violation: int64 values above 2**53 silently lose precision in an SQLite store
when the Frame also has a float column: rows are bound as float64 row arrays.'''
import sys, os, tempfile
sys.path.insert(0, sys.argv[1])
import numpy as np
import static_frame as sf
assert sf.__file__.startswith(os.path.abspath(sys.argv[1])), sf.__file__

tmp = tempfile.mkdtemp(dir='/dev/shm' if os.path.isdir('/dev/shm') else None)
cfg = sf.StoreConfig(index_depth=1)
f = sf.Frame.from_dict(dict(id=np.array([9007199254740993, 1234567890123456789]), price=np.array([1.5, 2.5])), index=('x', 'y'), name='f')
fp = os.path.join(tmp, 'v6.sqlite')
sf.Bus.from_frames((f,)).to_sqlite(fp, config=cfg)
g = sf.Bus.from_sqlite(fp, config=cfg)['f']
print('id written:', f['id'].values.tolist())
print('id read   :', g['id'].values.tolist())
# control: same ints without the float column survive
f2 = f[['id']].rename('f')
sf.Bus.from_frames((f2,)).to_sqlite(fp, config=cfg)
print('control (no float column) read:', sf.Bus.from_sqlite(fp, config=cfg)['f']['id'].values.tolist())
if not g.equals(f):
    print('VIOLATION: Frame read from the SQLite store is not equal to the Frame written (integers changed)')
    sys.exit(1)
print('ok')
