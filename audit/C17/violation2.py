'''C17 violation: sorting a lazy Bus by values (a "sort" derivation) fails whenever
max_persist is smaller than the number of Frames: Bus.sort_values raises ErrorInitBus
instead of returning a derived Bus that serves the correct Frames within max_persist.'''
import sys, os, tempfile
sys.path.insert(0, sys.argv[1])
import numpy as np
import static_frame as sf
assert sf.__file__.startswith(os.path.abspath(sys.argv[1])), sf.__file__

tmp = tempfile.mkdtemp(dir='/dev/shm' if os.path.isdir('/dev/shm') else None)
frames = [sf.Frame(np.arange(6).reshape(2, 3) + i * 10, index=('x', 'y'), columns=('a', 'b', 'c'), name=f'f{i}') for i in range(4)]
src = sf.Bus.from_frames(frames)
fp = os.path.join(tmp, 'v2.zip')
src.to_zip_pickle(fp)
key = lambda s: s.iter_element().apply(lambda f: -int(f.values.sum()))
expected = ['f3', 'f2', 'f1', 'f0']
bad = 0
for mp in (None, 1, 2, 3, 4):
    b = sf.Bus.from_zip_pickle(fp, max_persist=mp)
    try:
        d = b.sort_values(key=key)
        got = [str(x) for x in d.index]
        ok = got == expected and all(d[l].equals(src[l]) for l in expected)
        n = int(d._loaded.sum())
        if mp is not None and n > mp:
            ok = False
        print(f'max_persist={mp}: sorted labels {got}, loaded in derived Bus {n}, correct={ok}')
        if not ok:
            bad += 1
    except Exception as e:
        print(f'max_persist={mp}: sort_values raised {type(e).__name__}: {e}')
        bad += 1
if bad:
    print('VIOLATION: expected a derived, sorted Bus serving correct Frames for every max_persist in 1..n')
    sys.exit(1)
print('ok')
