'''C17 violation (low plausibility, needs os.utime or a coarse copy tool): the store is
replaced by a file with a DIFFERENT modification time, yet the next read returns the new
data instead of raising StoreFileMutation. The coherence check compares os.path.getmtime
(float seconds, ~200ns resolution today) rather than st_mtime_ns, so two distinct mtimes
that round to the same float are treated as "unchanged".'''
import sys, os, tempfile
sys.path.insert(0, sys.argv[1])
import numpy as np
import static_frame as sf
assert sf.__file__.startswith(os.path.abspath(sys.argv[1])), sf.__file__
from static_frame.core.exception import StoreFileMutation

tmp = tempfile.mkdtemp(dir='/dev/shm' if os.path.isdir('/dev/shm') else None)
frames = [sf.Frame(np.arange(4).reshape(2, 2) + i * 10, index=('x', 'y'), columns=('a', 'b'), name=f'f{i}') for i in range(3)]
fp = os.path.join(tmp, 'v13.zip')
sf.Bus.from_frames(frames).to_zip_pickle(fp)
base = 1_700_000_000_123_456_700
os.utime(fp, ns=(base, base))
b = sf.Bus.from_zip_pickle(fp, max_persist=1)
b['f0']
# replace the file by different content with an mtime 40ns later
sf.Bus.from_frames([(f * -1).rename(f.name) for f in frames]).to_zip_pickle(fp)
os.utime(fp, ns=(base, base + 40))
ns = os.stat(fp).st_mtime_ns
print('mtime before (ns):', base, ' mtime after (ns):', ns, ' differ:', ns != base)
if ns == base:
    print('file system does not keep nanosecond mtimes; scenario not applicable'); sys.exit(0)
try:
    f = b['f1']
    print('read after replacement returned data:', f.values.tolist(), '(original f1 was', frames[1].values.tolist(), ')')
    print('VIOLATION: expected StoreFileMutation')
    sys.exit(1)
except StoreFileMutation as e:
    print('ok, raised', e)
