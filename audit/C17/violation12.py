'''C17 violation (derivation outside the four listed in the statement): Bus.roll / Bus.shift
on a lazy Bus give history-dependent results. Loaded Frames move to the neighbouring label,
unloaded ones stay under their own label and are later read from the store by that label, so
the Frame served under a label depends on what happened to be loaded, and differs from what
the same derivation of an eagerly loaded Bus serves.'''
import sys, os, tempfile
sys.path.insert(0, sys.argv[1])
import numpy as np
import static_frame as sf
assert sf.__file__.startswith(os.path.abspath(sys.argv[1])), sf.__file__
from static_frame.core.bus import FrameDeferred

tmp = tempfile.mkdtemp(dir='/dev/shm' if os.path.isdir('/dev/shm') else None)
frames = [sf.Frame(np.arange(4).reshape(2, 2) + i * 10, index=('x', 'y'), columns=('a', 'b'), name=f'f{i}') for i in range(4)]
fp = os.path.join(tmp, 'v12.zip')
sf.Bus.from_frames(frames).to_zip_pickle(fp)

eager = sf.Bus.from_zip_pickle(fp); eager.values # load all
lazy_cold = sf.Bus.from_zip_pickle(fp)
lazy_warm = sf.Bus.from_zip_pickle(fp); lazy_warm['f0'] # one Frame already accessed

res = {}
for name, b in (('eager', eager), ('lazy, nothing loaded', lazy_cold), ('lazy, f0 loaded', lazy_warm)):
    r = b.roll(1)
    res[name] = [r[l].name for l in r.index]
    print(f'{name:22s} roll(1) serves under f0..f3: {res[name]}')
s_e = eager.shift(1, fill_value=FrameDeferred); s_l = lazy_cold.shift(1, fill_value=FrameDeferred)
se = s_e['f1'].name; sl = s_l['f1'].name
print(f'shift(1): under f1 eager serves {se}, lazy serves {sl}')
if len(set(map(tuple, res.values()))) != 1 or se != sl:
    print('VIOLATION: the Frame served under a label depends on the access history')
    sys.exit(1)
print('ok')
