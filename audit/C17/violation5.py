'''C17 violation: a Frame with integer column labels (e.g. the default auto-columns
0..n-1) written to an SQLite store comes back with string column labels.'''
import sys, os, tempfile
sys.path.insert(0, sys.argv[1])
import numpy as np
import static_frame as sf
assert sf.__file__.startswith(os.path.abspath(sys.argv[1])), sf.__file__

tmp = tempfile.mkdtemp(dir='/dev/shm' if os.path.isdir('/dev/shm') else None)
cfg = sf.StoreConfig(index_depth=1)
f = sf.Frame(np.arange(6).reshape(2, 3), index=('x', 'y'), name='f') # columns 0, 1, 2
fp = os.path.join(tmp, 'v5.sqlite')
sf.Bus.from_frames((f,)).to_sqlite(fp, config=cfg)
g = sf.Bus.from_sqlite(fp, config=cfg)['f']
print('columns written:', f.columns.values.tolist(), f.columns.values.dtype)
print('columns read   :', g.columns.values.tolist(), g.columns.values.dtype)
ok = g.equals(f)
try:
    g[1]
except KeyError:
    print('selecting column 1 on the Frame read back raises KeyError')
    ok = False
if not ok:
    print('VIOLATION: Frame read from the SQLite store is not equal to the Frame written (int column labels -> str)')
    sys.exit(1)
print('ok')
