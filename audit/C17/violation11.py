'''C17 violation: in zip-csv / zip-tsv stores, string data that merely looks like another
type is returned as that type: '007' -> 7, 'true' -> True, '1e5' -> 100000.0, 'nan' -> NaN,
'None' -> None; string index labels '1','2' -> integers 1, 2; string column labels
'2020','2021' -> integers. (Type inference on read; the text formats carry no dtype.)'''
import sys, os, tempfile, warnings
sys.path.insert(0, sys.argv[1])
import static_frame as sf
assert sf.__file__.startswith(os.path.abspath(sys.argv[1])), sf.__file__
warnings.simplefilter('ignore')

tmp = tempfile.mkdtemp(dir='/dev/shm' if os.path.isdir('/dev/shm') else None)
cfg = sf.StoreConfig(index_depth=1)
frames = (
    sf.Frame.from_dict(dict(zip=('007', '010'), flag=('true', 'false'), code=('1e5', '2e3'), word=('nan', 'None')), index=('x', 'y'), name='values'),
    sf.Frame.from_dict(dict(a=(1, 2)), index=('1', '2'), name='index_labels'),
    sf.Frame.from_dict({'2020': (1, 2), '2021': (3, 4)}, index=('x', 'y'), name='column_labels'),
)
src = sf.Bus.from_frames(frames)
bad = 0
for fmt in ('csv', 'tsv'):
    fp = os.path.join(tmp, f'v11_{fmt}.zip')
    getattr(src, 'to_zip_' + fmt)(fp, config=cfg)
    b = getattr(sf.Bus, 'from_zip_' + fmt)(fp, config=cfg)
    for f in frames:
        g = b[f.name]
        eq = g.equals(f)
        print(f'zip-{fmt} {f.name}: equal={eq}')
        if not eq:
            bad += 1
            print('   written: index', f.index.values.tolist(), 'columns', f.columns.values.tolist(), 'values', f.values.tolist())
            print('   read   : index', g.index.values.tolist(), 'columns', g.columns.values.tolist(), 'values', g.values.tolist())
if bad:
    print('VIOLATION: Frame read from the store is not equal to the Frame written')
    sys.exit(1)
print('ok')
