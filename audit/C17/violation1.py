'''C17 violation: a Frame label that contains the store's member extension
('.csv' in a zip-csv store, '.txt' in zip-tsv, '.pickle' in zip-pickle) is not
returned on re-opening; the Bus shows a different label and the Frame written
under the original label cannot be read.'''
import sys, os, tempfile
sys.path.insert(0, sys.argv[1])
import static_frame as sf
assert sf.__file__.startswith(os.path.abspath(sys.argv[1])), sf.__file__

tmp = tempfile.mkdtemp(dir='/dev/shm' if os.path.isdir('/dev/shm') else None)
bad = 0
cfg = sf.StoreConfig(index_depth=1)
for fmt, ext in (('csv', '.csv'), ('tsv', '.txt'), ('pickle', '.pickle')):
    labels = ['prices' + ext, 'b', 'raw' + ext + '.bak']
    frames = [sf.Frame.from_dict(dict(a=(1, 2), b=(3, 4)), index=('x', 'y'), name=l) for l in labels]
    src = sf.Bus.from_frames(frames)
    fp = os.path.join(tmp, f'v1_{fmt}.zip')
    getattr(src, 'to_zip_' + fmt)(fp, config=cfg)
    b = getattr(sf.Bus, 'from_zip_' + fmt)(fp, config=cfg)
    got = [str(x) for x in b.index]
    print(f'zip-{fmt}: labels written {labels} -> labels read {got}')
    if got != labels:
        bad += 1
    for l in labels:
        try:
            f = b[l]
            if not f.equals(src[l]):
                bad += 1
        except KeyError as e:
            print(f'   reading label {l!r} -> KeyError {e}')
            bad += 1
    # the mangled label cannot be loaded either
    for l in got:
        if l not in labels:
            try:
                b[l]
            except KeyError as e:
                print(f'   reading mangled label {l!r} -> KeyError {e}')
if bad:
    print('VIOLATION: expected identical labels and Frames after re-opening the store')
    sys.exit(1)
print('ok')
sys.exit(0)
