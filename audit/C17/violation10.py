'''C17 violation: a one-column Frame written without its index (include_index=False /
index_depth=0) to a zip-csv or zip-tsv store cannot be read back (IndexError); written
also without column labels it comes back transposed (n x 1 -> 1 x n).'''
import sys, os, tempfile, warnings
sys.path.insert(0, sys.argv[1])
import numpy as np
import static_frame as sf
assert sf.__file__.startswith(os.path.abspath(sys.argv[1])), sf.__file__
warnings.simplefilter('ignore')

tmp = tempfile.mkdtemp(dir='/dev/shm' if os.path.isdir('/dev/shm') else None)
bad = 0
f = sf.Frame.from_dict(dict(a=(10, 20, 30)), name='f')
cfg = sf.StoreConfig(index_depth=0, include_index=False)
cfg_bare = sf.StoreConfig(index_depth=0, include_index=False, columns_depth=0, include_columns=False)
f_bare = sf.Frame(np.array([[10], [20], [30]]), name='f')
for fmt in ('csv', 'tsv'):
    fp = os.path.join(tmp, f'v10_{fmt}.zip')
    getattr(sf.Bus.from_frames((f,)), 'to_zip_' + fmt)(fp, config=cfg)
    try:
        g = getattr(sf.Bus, 'from_zip_' + fmt)(fp, config=cfg)['f']
        print(f'zip-{fmt} with header: written shape {f.shape}, read shape {g.shape}')
        if not g.equals(f):
            bad += 1
    except Exception as e:
        print(f'zip-{fmt} with header: written shape {f.shape}, read raised {type(e).__name__}: {e}')
        bad += 1
    getattr(sf.Bus.from_frames((f_bare,)), 'to_zip_' + fmt)(fp, config=cfg_bare)
    try:
        g = getattr(sf.Bus, 'from_zip_' + fmt)(fp, config=cfg_bare)['f']
        print(f'zip-{fmt} no header : written shape {f_bare.shape}, read shape {g.shape}')
        if g.shape != f_bare.shape or not g.equals(f_bare):
            bad += 1
    except Exception as e:
        print(f'zip-{fmt} no header : read raised {type(e).__name__}: {e}')
        bad += 1
if bad:
    print('VIOLATION: Frame read from the store is not equal to the Frame written')
    sys.exit(1)
print('ok')
