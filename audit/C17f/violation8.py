'''Store.read_many() and Store.labels() are generator functions behind a decorator that checks the file's
modification time when the generator is CREATED, not when it first reads. A caller that holds the iterator
while the file is replaced gets data of the new file (or, for SQLite after a delete, a freshly created empty
database file) instead of StoreFileMutation. Needs direct use of the Store classes
(static_frame.core.store_zip / store_sqlite); the Bus consumes these iterators immediately.
'''
import sys, os, tempfile, shutil
root = sys.argv[1]
sys.path.insert(0, root)
import static_frame as sf
from static_frame.core.store_zip import StoreZipPickle
from static_frame.core.store_zip import StoreZipCSV
from static_frame.core.store_sqlite import StoreSQLite
from static_frame.core.store import StoreConfig
from static_frame.core.exception import StoreFileMutation
assert sf.__file__.startswith(root), sf.__file__

tmp = tempfile.mkdtemp(dir='/dev/shm')
bad = []
try:
    def frames(offset):
        return [sf.Frame.from_element(i + offset, index=('x', 'y'), columns=('p', 'q'), name=n)
                for i, n in enumerate(('a', 'b'))]
    for cls, ext, to, cfg in (
            (StoreZipPickle, '.zip', 'to_zip_pickle', None),
            (StoreZipCSV, '.zip', 'to_zip_csv', StoreConfig(index_depth=1)),
            (StoreSQLite, '.sqlite', 'to_sqlite', StoreConfig(index_depth=1)),
            ):
        fp = os.path.join(tmp, 'store' + ext)
        alt = os.path.join(tmp, 'alt' + ext)
        kw = {} if cfg is None else {'config': cfg}
        getattr(sf.Bus.from_frames(frames(0)), to)(fp, **kw)
        os.utime(fp, (1_500_000_000, 1_500_000_000))
        getattr(sf.Bus.from_frames(frames(100)), to)(alt, **kw)
        os.utime(alt, (1_600_000_000, 1_600_000_000))

        store = cls(fp)
        it = store.read_many(('a', 'b'), **kw) # nothing read yet
        os.replace(alt, fp) # different content, newer mtime
        try:
            got = [int(f.values[0, 0]) for f in it]
            observed = f'returned {got}'
            ok = False
        except StoreFileMutation:
            observed, ok = 'StoreFileMutation', True
        except Exception as e: # pylint: disable=broad-except
            observed, ok = f'{type(e).__name__}: {e}', False
        print(f'{cls.__name__}: read_many iterator created, file replaced, then iterated: expected StoreFileMutation; observed {observed}')
        if not ok:
            bad.append(cls.__name__)
finally:
    shutil.rmtree(tmp, ignore_errors=True)

if bad:
    print('VIOLATION: read from a replaced file returns data:', bad)
    sys.exit(1)
print('OK')
sys.exit(0)
