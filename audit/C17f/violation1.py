'''Exporting a lazily loaded Bus onto the file it was opened from destroys the store.

Bus.to_zip_* opens the target in 'w' mode (truncating it) and StoreSQLite.write removes the target
before the first Frame is pulled from the (lazy) Bus; the read then fails with StoreFileMutation,
and the only copy of the data is gone.
'''
import sys, os, tempfile, shutil
root = sys.argv[1]
sys.path.insert(0, root)
import static_frame as sf
assert sf.__file__.startswith(root), sf.__file__

tmp = tempfile.mkdtemp(dir='/dev/shm')
bad = []
try:
    frames = [sf.Frame.from_dict(dict(a=(i, i + 1), b=(i * 2, i * 3)), index=('x', 'y'), name=n)
            for i, n in enumerate(('f1', 'f2', 'f3'))]
    cfg = sf.StoreConfig(index_depth=1)
    for fmt, ext in (('zip_pickle', '.zip'), ('zip_csv', '.zip'), ('sqlite', '.sqlite')):
        fp = os.path.join(tmp, 'store_' + fmt + ext)
        kw = {} if fmt == 'zip_pickle' else {'config': cfg}
        getattr(sf.Bus.from_frames(frames), 'to_' + fmt)(fp, **kw)
        os.utime(fp, (1_500_000_000, 1_500_000_000))

        bus = getattr(sf.Bus, 'from_' + fmt)(fp, **kw) # nothing loaded
        _ = bus['f1'] # one Frame loaded, two deferred
        err = None
        try:
            getattr(bus, 'to_' + fmt)(fp, **kw) # "save" to the same path
        except Exception as e: # pylint: disable=broad-except
            err = e
        # whatever to_* did (succeed or refuse), the store must still hold the three Frames
        try:
            after = getattr(sf.Bus, 'from_' + fmt)(fp, **kw)
            labels = [str(x) for x in after.index]
            values_ok = labels == ['f1', 'f2', 'f3'] and all(
                    after[f.name].values.tolist() == f.values.tolist() for f in frames)
        except Exception as e: # pylint: disable=broad-except
            labels, values_ok = f'unreadable: {type(e).__name__}: {e}', False
        print(f'{fmt}: expected store still holds f1, f2, f3 after bus.to_{fmt}(same path)')
        print(f'{fmt}: observed export raised {type(err).__name__ if err else None}; labels now {labels}; size {os.path.getsize(fp) if os.path.exists(fp) else "missing"}')
        if not values_ok:
            bad.append(fmt)
finally:
    shutil.rmtree(tmp, ignore_errors=True)

if bad:
    print('VIOLATION: store destroyed by exporting a partly loaded Bus onto its own file:', bad)
    sys.exit(1)
print('OK')
sys.exit(0)
