'''Bus.roll / Bus.shift on a Bus that is not fully loaded give a label->Frame association that depends on
which Frames happen to be loaded: loaded Frames move with the roll, unloaded placeholders stay behind and
are later read from the store under the label they landed on.
'''
import sys, os, tempfile, shutil
root = sys.argv[1]
sys.path.insert(0, root)
import static_frame as sf
assert sf.__file__.startswith(root), sf.__file__

tmp = tempfile.mkdtemp(dir='/dev/shm')
bad = []
try:
    frames = [sf.Frame.from_element(i, index=('x', 'y'), columns=('p', 'q'), name=n)
            for i, n in enumerate(('f1', 'f2', 'f3', 'f4'))]
    fp = os.path.join(tmp, 'store.zip')
    sf.Bus.from_frames(frames).to_zip_pickle(fp)

    def assoc(bus):
        return [(str(label), f.name) for label, f in bus.items()]

    eager = sf.Bus.from_zip_pickle(fp)
    tuple(eager.items()) # load everything
    expected_roll = assoc(eager.roll(1))
    expected_shift = assoc(eager.shift(1, fill_value=frames[0].rename('fill')))

    for history in ((), ('f1',), ('f3', 'f4')):
        for mp in (None, 2):
            lazy = sf.Bus.from_zip_pickle(fp, max_persist=mp)
            for label in history:
                _ = lazy[label]
            got_roll = assoc(lazy.roll(1))
            lazy = sf.Bus.from_zip_pickle(fp, max_persist=mp)
            for label in history:
                _ = lazy[label]
            got_shift = assoc(lazy.shift(1, fill_value=frames[0].rename('fill')))
            print(f'history {history} max_persist {mp}')
            print('  roll(1)  expected', expected_roll)
            print('  roll(1)  observed', got_roll)
            print('  shift(1) expected', expected_shift)
            print('  shift(1) observed', got_shift)
            if got_roll != expected_roll:
                bad.append(('roll', history, mp))
            if got_shift != expected_shift:
                bad.append(('shift', history, mp))
finally:
    shutil.rmtree(tmp, ignore_errors=True)

if bad:
    print('VIOLATION: roll/shift of a partly loaded Bus is history dependent:', bad)
    sys.exit(1)
print('OK')
sys.exit(0)
