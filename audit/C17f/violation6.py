'''A Bus derived without selection (rename, sort_index, drop, reindex) from a Bus with max_persist starts
its own eviction order from the POSITION of the loaded Frames, not from the order in which they were used:
the most recently used Frame can be the first one evicted. copy.copy(bus) shares the LRU dictionary with its
source, so uses of the copy reorder evictions of the original.
'''
import sys, os, tempfile, shutil, copy
root = sys.argv[1]
sys.path.insert(0, root)
import static_frame as sf
assert sf.__file__.startswith(root), sf.__file__

tmp = tempfile.mkdtemp(dir='/dev/shm')
bad = []
try:
    frames = [sf.Frame.from_element(i, index=('x', 'y'), columns=('p', 'q'), name=n)
            for i, n in enumerate(('a', 'b', 'c', 'd'))]
    fp = os.path.join(tmp, 'store.zip')
    sf.Bus.from_frames(frames).to_zip_pickle(fp)

    def loaded(bus):
        return sorted(str(l) for l, v in bus.status['loaded'].items() if v)

    for name, derive in (
            ('rename', lambda b: b.rename('x')),
            ('sort_index', lambda b: b.sort_index()),
            ('drop', lambda b: b.drop['d']),
            ('reindex', lambda b: b.reindex(('a', 'b', 'c'), fill_value=None)),
            ):
        bus = sf.Bus.from_zip_pickle(fp, max_persist=2)
        _ = bus['b'] # used first
        _ = bus['a'] # used last: 'b' is the least recently used
        derived = derive(bus)
        _ = derived['c'] # third Frame: one has to go
        got = loaded(derived)
        print(f'{name}: use b, use a, derive, use c: expected loaded [a, c] (b least recently used); observed {got}')
        if got != ['a', 'c']:
            bad.append(name)

    bus = sf.Bus.from_zip_pickle(fp, max_persist=2)
    _ = bus['a']
    _ = bus['b'] # 'a' is the least recently used of bus
    other = copy.copy(bus)
    _ = other['a'] # use in the copy only
    _ = bus['c']
    got = loaded(bus)
    print(f'copy.copy: use a, use b, copy, use a in the copy, use c in the original: expected original holds [b, c]; observed {got}')
    if got != ['b', 'c']:
        bad.append('copy.copy')
finally:
    shutil.rmtree(tmp, ignore_errors=True)

if bad:
    print('VIOLATION: eviction is not least-recently-used across derivation / shallow copy:', bad)
    sys.exit(1)
print('OK')
sys.exit(0)
