'''Bus.relabel on a Bus that is not fully loaded: the unloaded placeholders are later read from the store
under the NEW label. Swapped labels silently deliver the wrong Frame; new labels fail with KeyError; which of
the two happens depends on which Frames were loaded before the relabel.
(relabel is not in the statement's list "selection, drop, reindex, sort"; it contradicts the general clause
"returns for every label and every access history the same Frame an eager load would return".)
'''
import sys, os, tempfile, shutil
root = sys.argv[1]
sys.path.insert(0, root)
import static_frame as sf
assert sf.__file__.startswith(root), sf.__file__

tmp = tempfile.mkdtemp(dir='/dev/shm')
bad = []
try:
    frames = [sf.Frame.from_element(i, index=('x', 'y'), columns=('p', 'q'), name=n)
            for i, n in enumerate(('a', 'b', 'c'))]
    fp = os.path.join(tmp, 'store.zip')
    sf.Bus.from_frames(frames).to_zip_pickle(fp)

    def assoc(bus):
        out = []
        for label in bus.index:
            try:
                out.append((str(label), bus[label].name))
            except Exception as e: # pylint: disable=broad-except
                out.append((str(label), type(e).__name__))
        return out

    swap = {'a': 'b', 'b': 'a'}
    fresh = {'a': 'A', 'b': 'B', 'c': 'C'}

    eager = sf.Bus.from_zip_pickle(fp)
    tuple(eager.items())
    exp_swap = assoc(eager.relabel(swap))
    exp_fresh = assoc(eager.relabel(fresh))

    for history in ((), ('a',)):
        lazy = sf.Bus.from_zip_pickle(fp)
        for label in history:
            _ = lazy[label]
        got_swap = assoc(lazy.relabel(swap))
        got_fresh = assoc(lazy.relabel(fresh))
        print(f'history {history}')
        print('  relabel(swap a<->b) expected', exp_swap)
        print('  relabel(swap a<->b) observed', got_swap)
        print('  relabel(upper case) expected', exp_fresh)
        print('  relabel(upper case) observed', got_fresh)
        if got_swap != exp_swap:
            bad.append(('swap', history))
        if got_fresh != exp_fresh:
            bad.append(('fresh', history))
finally:
    shutil.rmtree(tmp, ignore_errors=True)

if bad:
    print('VIOLATION: relabel of a partly loaded Bus reads the store under the new labels:', bad)
    sys.exit(1)
print('OK')
sys.exit(0)
