'''Bus.tail(0) returns the whole Bus and loads every Frame from the store (head(0) returns an empty Bus and
loads nothing): iloc[-0:] is iloc[0:].
'''
import sys, os, tempfile, shutil
root = sys.argv[1]
sys.path.insert(0, root)
import static_frame as sf
assert sf.__file__.startswith(root), sf.__file__

tmp = tempfile.mkdtemp(dir='/dev/shm')
bad = []
try:
    frames = [sf.Frame.from_element(i, index=('x', 'y'), columns=('p', 'q'), name=n)
            for i, n in enumerate(('a', 'b', 'c', 'd'))]
    fp = os.path.join(tmp, 'store.zip')
    sf.Bus.from_frames(frames).to_zip_pickle(fp)
    for mp in (None, 2):
        bus = sf.Bus.from_zip_pickle(fp, max_persist=mp)
        h = bus.head(0)
        loaded_h = int(bus.status['loaded'].sum())
        t = bus.tail(0)
        loaded_t = int(bus.status['loaded'].sum())
        print(f'max_persist {mp}: head(0) expected len 0, 0 loaded; observed len {len(h)}, {loaded_h} loaded')
        print(f'max_persist {mp}: tail(0) expected len 0, 0 loaded; observed len {len(t)}, {loaded_t} loaded')
        if len(h) != 0 or loaded_h != 0 or len(t) != 0 or loaded_t != 0:
            bad.append(mp)
finally:
    shutil.rmtree(tmp, ignore_errors=True)

if bad:
    print('VIOLATION: tail(0) selects and loads the whole Bus:', bad)
    sys.exit(1)
print('OK')
sys.exit(0)
