'''A Bus with hierarchical labels and max_persist: a multi-label selection whose Frames are all loaded
already (LRU "touch" path) raises TypeError: unhashable type: 'numpy.ndarray'.
'''
import sys, os, tempfile, shutil
root = sys.argv[1]
sys.path.insert(0, root)
import static_frame as sf
import numpy as np
assert sf.__file__.startswith(root), sf.__file__

tmp = tempfile.mkdtemp(dir='/dev/shm')
bad = []
try:
    labels = [('a', 1), ('a', 2), ('b', 1), ('b', 2)]
    frames = [sf.Frame.from_element(i, index=('x', 'y'), columns=('p', 'q'), name=label)
            for i, label in enumerate(labels)]
    cfg = sf.StoreConfig(
            label_encoder=lambda t: f'{t[0]}_{t[1]}',
            label_decoder=lambda s: (s.split('_')[0], int(s.split('_')[1])),
            )
    fp = os.path.join(tmp, 'store.zip')
    sf.Bus.from_items(((f.name, f) for f in frames), config=cfg).to_zip_pickle(fp, config=cfg)

    def vals(bus):
        return [int(f.values[0, 0]) for f in bus.values]

    # (1) store-backed: same labels, presented as an IndexHierarchy
    for mp in (2, 4):
        for name, sel, exp in (
                ('HLoc["a"]', lambda b: b[sf.HLoc['a']], [0, 1]),
                ('iloc[0:2]', lambda b: b.iloc[0:2], [0, 1]),
                ('[[("a",2),("a",1)]]', lambda b: b[[('a', 2), ('a', 1)]], [1, 0]),
                ):
            flat = sf.Bus.from_zip_pickle(fp, config=cfg, max_persist=mp)
            bus = flat.relabel(sf.IndexHierarchy.from_labels(flat.index))
            try:
                first = vals(sel(bus)) # first time: loads
                got = vals(sel(bus)) # second time: all loaded already
            except Exception as e: # pylint: disable=broad-except
                got = f'{type(e).__name__}: {e}'
            print(f'store-backed max_persist={mp} {name} twice: expected {exp} observed {got}')
            if got != exp:
                bad.append(('store', mp, name))

    # (2) no store at all: public constructor with a limit
    series = sf.Series(frames, index=sf.IndexHierarchy.from_labels(labels), dtype=object)
    bus = sf.Bus(series, max_persist=4)
    try:
        got = vals(bus.iloc[0:2])
    except Exception as e: # pylint: disable=broad-except
        got = f'{type(e).__name__}: {e}'
    print(f'in-memory Bus(series, max_persist=4).iloc[0:2]: expected [0, 1] observed {got}')
    if got != [0, 1]:
        bad.append(('memory',))
finally:
    shutil.rmtree(tmp, ignore_errors=True)

if bad:
    print('VIOLATION: hierarchical labels with max_persist fail on already loaded selections:', bad)
    sys.exit(1)
print('OK')
sys.exit(0)
