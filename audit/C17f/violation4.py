'''Bus.reindex that introduces a label not in the store (filled with a Frame) on a Bus with max_persist:
the fill Frame is counted and evicted like a store-backed Frame, but cannot be read back, so the derived
Bus stops serving that label (KeyError from the store), or cannot be built at all (ErrorInitBus) when the
selected part already holds max_persist Frames.
'''
import sys, os, tempfile, shutil
root = sys.argv[1]
sys.path.insert(0, root)
import static_frame as sf
assert sf.__file__.startswith(root), sf.__file__

tmp = tempfile.mkdtemp(dir='/dev/shm')
bad = []
try:
    frames = [sf.Frame.from_element(i, index=('x', 'y'), columns=('p', 'q'), name=n)
            for i, n in enumerate(('a', 'b', 'c'))]
    fill = sf.Frame.from_element(-1, index=('x', 'y'), columns=('p', 'q'), name='fill')
    fp = os.path.join(tmp, 'store.zip')
    sf.Bus.from_frames(frames).to_zip_pickle(fp)
    expected = [('c', 'c'), ('new', 'fill'), ('a', 'a')]

    for mp in (None, 1, 2):
        for history in ((), ('c',)):
            bus = sf.Bus.from_zip_pickle(fp, max_persist=mp)
            for label in history:
                _ = bus[label]
            try:
                derived = bus.reindex(('c', 'new', 'a'), fill_value=fill)
                first = [(str(l), f.name) for l, f in derived.items()]
                second = [(str(l), f.name) for l, f in derived.items()] # and again
                observed = first if first == second else (first, second)
            except Exception as e: # pylint: disable=broad-except
                observed = f'{type(e).__name__}: {e}'
            print(f'max_persist {mp} history {history}: expected {expected}')
            print(f'max_persist {mp} history {history}: observed {observed}')
            if observed != expected:
                bad.append((mp, history))
finally:
    shutil.rmtree(tmp, ignore_errors=True)

if bad:
    print('VIOLATION: reindex with a fill Frame under max_persist does not keep serving the Frames:', bad)
    sys.exit(1)
print('OK')
sys.exit(0)
