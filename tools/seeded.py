#!/venv/bin/python
'''Run the registered checks against every kept seeded change under /verif/seeded/<id>/.

For each change: a scratch git worktree of /repo's HEAD is created on tmpfs (never /repo itself), the
patch is applied, the agent's demonstration is run (must fail with the patch, pass without), then
the quick check of the property (and, with --all, of every property) is run with --repo <scratch>.
Results are written to seeded/<id>/result.json and summarised in seeded/INDEX.md.

  tools/seeded.py [--only ID ...] [--all-checks] [--budget S]
'''
import argparse
import glob
import json
import os
import re
import shutil
import subprocess
import sys

VERIF = os.path.dirname(os.path.dirname(os.path.abspath(__file__)))
SCRATCH = '/dev/shm/seeded_wt'
PY = '/venv/bin/python'


def sh(cmd, **kw):
    env = dict(os.environ)
    env['VERIF_REPLAY_DIR'] = '/dev/shm/seeded_replays'  # replays against scratch trees are not evidence about /repo
    return subprocess.run(cmd, capture_output=True, text=True, env=env, **kw)


def fresh_worktree():
    sh(['git', '-C', '/repo', 'worktree', 'remove', '--force', SCRATCH])
    shutil.rmtree(SCRATCH, ignore_errors=True)
    p = sh(['git', '-C', '/repo', 'worktree', 'add', '--detach', '-f', SCRATCH, 'HEAD'])
    if p.returncode:
        raise SystemExit('cannot create worktree: ' + p.stderr)


def main():
    ap = argparse.ArgumentParser()
    ap.add_argument('--only', nargs='*')
    ap.add_argument('--all-checks', action='store_true')
    ap.add_argument('--budget', type=float, default=None)
    args = ap.parse_args()
    rows = []
    for d in sorted(glob.glob(os.path.join(VERIF, 'seeded', '*', ''))):
        sid = os.path.basename(os.path.dirname(d))
        if args.only and sid not in args.only:
            res_p = os.path.join(d, 'result.json')
            if os.path.exists(res_p):
                rows.append(json.load(open(res_p)))
            continue
        meta = json.load(open(os.path.join(d, 'meta.json')))
        prop = meta['property']
        fresh_worktree()
        res = {'id': sid, 'property': prop, 'summary': meta.get('summary', ''), 'needs': meta.get('needs_to_manifest', ''),
               'outside_statement': meta.get('outside_statement')}
        demo = os.path.join(d, meta.get('demo', 'demo.py'))
        p0 = sh([PY, demo, SCRATCH], timeout=600)
        res['demo_clean_exit'] = p0.returncode
        ap_ = sh(['git', '-C', SCRATCH, 'apply', os.path.join(d, 'patch.diff')])
        if ap_.returncode:
            res['error'] = 'patch does not apply to the current /repo HEAD (rebase it): ' + ap_.stderr[:300]
            res['detected'] = False
            json.dump(res, open(os.path.join(d, 'result.json'), 'w'), indent=1)
            rows.append(res)
            print(sid, 'ERROR', res['error'])
            continue
        p1 = sh([PY, demo, SCRATCH], timeout=600)
        res['demo_patched_exit'] = p1.returncode
        props = [prop]
        if args.all_checks:
            import checks  # noqa
            props = sorted(set([prop] + list(__import__('checks').CHECKS)))
        res['checks'] = {}
        for pr in props:
            cmd = [PY, os.path.join(VERIF, 'run_check.py'), pr, '--tier', 'quick', '--repo', SCRATCH, '--no-evidence']
            if args.budget:
                cmd += ['--budget', str(args.budget)]
            p = sh(cmd, timeout=3600)
            sigs = re.findall(r'signature=(\S+(?: \S+)*?) step=', p.stdout)
            m = re.search(r'DONE .*?wall=([0-9.]+)s', p.stdout)
            res['checks'][pr] = {'exit': p.returncode, 'signatures': sigs[:12], 'wall_s': float(m.group(1)) if m else None,
                                 'harness_error': 'HARNESS-ERROR' in p.stdout}
        res['detected'] = res['checks'][prop]['exit'] == 1
        json.dump(res, open(os.path.join(d, 'result.json'), 'w'), indent=1)
        rows.append(res)
        print(sid, 'demo clean/patched:', res['demo_clean_exit'], res['demo_patched_exit'], 'detected:', res['detected'],
              res['checks'][prop]['signatures'][:3])
        sys.stdout.flush()
    sh(['git', '-C', '/repo', 'worktree', 'remove', '--force', SCRATCH])
    shutil.rmtree(SCRATCH, ignore_errors=True)
    # replays written while checking scratch trees are not evidence about /repo
    with open(os.path.join(VERIF, 'seeded', 'INDEX.md'), 'w') as f:
        f.write('# Seeded changes and the checks that catch them\n\n'
                'Each change was written by an independent sub-agent that saw only the property text and a scratch worktree; '
                'it compiles, adds no failures to the unit suite, and its own demonstration fails with it and passes without. '
                'Regenerate with `tools/seeded.py`.\n\n'
                '| id | property | detected by quick check | oracle signatures reported | what it needs to manifest |\n|---|---|---|---|---|\n')
        for r in rows:
            c = r.get('checks', {}).get(r['property'], {})
            others = [k for k, v in r.get('checks', {}).items() if k != r['property'] and v.get('exit') == 1]
            neutral = r.get('demo_patched_exit') == 0 and not r.get('detected')
            if r.get('outside_statement') and not r.get('detected'):
                f.write(f"| {r['id']} | {r['property']} | n/a: does not break the statement ({r['outside_statement'][:160]}) | - | {r.get('needs', '')[:200].replace('|', '/')} |\n")
                continue
            if r.get('error'):
                f.write(f"| {r['id']} | {r['property']} | ERROR: {r['error'][:80]} | - | - |\n")
                continue
            f.write(f"| {r['id']} | {r['property']} | {'yes' if r.get('detected') else ('n/a: neutralised by a later fix (its own demonstration passes)' if neutral else 'NO')}{(' (also ' + ','.join(others) + ')') if others else ''} | "
                    f"{'; '.join(c.get('signatures', [])[:3]) or '-'} | {r.get('needs', '')[:200].replace('|', '/')} |\n")
    print('written seeded/INDEX.md')


if __name__ == '__main__':
    sys.path.insert(0, VERIF)
    main()
