#!/usr/bin/env python3
'''Copy a sub-agent's deliverables (/tmp/wt_<P>/seeded/patchN.diff, demoN.py, meta.json) into /verif/seeded/<P>-<tag>N/.'''
import json, os, shutil, sys
src, prop, tag = sys.argv[1], sys.argv[2], (sys.argv[3] if len(sys.argv) > 3 else 'a')
metas = json.load(open(os.path.join(src, 'meta.json')))
for m in metas:
    n = ''.join(c for c in m['patch'] if c.isdigit())
    d = f'/verif/seeded/{prop}-{tag}{n}'
    os.makedirs(d, exist_ok=True)
    shutil.copy(os.path.join(src, m['patch']), os.path.join(d, 'patch.diff'))
    shutil.copy(os.path.join(src, m['demo']), os.path.join(d, 'demo.py'))
    meta = {'property': m.get('property', prop), 'summary': m.get('summary', ''), 'needs_to_manifest': m.get('needs_to_manifest', ''),
            'agent_tests_checked': m.get('tests_checked', ''), 'demo': 'demo.py', 'origin': 'independent sub-agent given only the property text and a scratch worktree'}
    json.dump(meta, open(os.path.join(d, 'meta.json'), 'w'), indent=1)
    print('imported', d)
