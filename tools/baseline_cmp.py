#!/usr/bin/env python3
'''Compare a junit xml of the pinned test command with /root/.vp/BASELINE.json: every stable_pass test must pass.'''
import json, sys, xml.etree.ElementTree as ET
base = json.load(open('/root/.vp/BASELINE.json'))
stable = set(base['stable_pass'])
res = {}
for tc in ET.parse(sys.argv[1]).getroot().iter('testcase'):
    name = f"{tc.get('classname')}::{tc.get('name')}"
    bad = any(ch.tag in ('failure', 'error', 'skipped') for ch in tc)
    res[name] = not bad
missing = [t for t in stable if t not in res]
failed = [t for t in stable if t in res and not res[t]]
newpass = [t for t, ok in res.items() if ok and t not in stable]
print(f'stable_pass={len(stable)} passed={sum(1 for t in stable if res.get(t))} failed={len(failed)} missing={len(missing)} extra_passing={len(newpass)}')
for t in failed[:40]: print('FAILED', t)
for t in missing[:10]: print('MISSING', t)
sys.exit(1 if failed or missing else 0)
