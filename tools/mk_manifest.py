#!/usr/bin/env python3
'''Regenerates /verif/MANIFEST.json (kept as a script so that the manifest stays consistent with checks.py).'''
import json
import os

VERIF = os.path.dirname(os.path.dirname(os.path.abspath(__file__)))

NA = {
    'C03': 'pure function of (frame, block layout, operation): no history, schedule, clock, I/O or fault in the statement; deterministic simulation has nothing to schedule or inject (DESIGN 6)',
    'C04': 'pure function of (container, key); no state outlives the call, no second party, no fault (DESIGN 6)',
    'C06': 'pure function of the two operands (DESIGN 6)',
    'C07': 'pure function of the merged values; no schedule or fault (DESIGN 6)',
    'C08': 'pure function of (container, key, value); the leaves-the-original-unchanged clause is monitored under C01/C09 (DESIGN 6)',
    'C10': 'pure predicate on pairs/triples of immutable containers (DESIGN 6)',
    'C11': 'pure function of the input sequence (DESIGN 6)',
    'C12': 'pure function of (container, sort arguments) (DESIGN 6)',
    'C13': 'generators over immutable containers; no second party can act between yields (DESIGN 6)',
    'C14': 'pure per-cell functions of (container, NA pattern, arguments) (DESIGN 6)',
    'C15': 'pure functions of (frame, reduction, axis, skipna) (DESIGN 6)',
    'C16': 'single-call round trip quantified over frames and format configurations only; no fault, schedule or interleaving party in the statement (DESIGN 6)',
    'C20': 'pure functions of the input frames (DESIGN 6)',
}

COMMON = ('sampled, not enumerated; reference models are plain Python written for the harness; NumPy/automap/zipfile/sqlite3/pickle run as real code and are trusted; '
          'the caller, allocator capacity, file clock, executors, thread scheduler and fault events are simulator-owned; determinism of every run is self-tested (selftest.py determinism)')

CHECKS = {
    'C01': ('DESIGN 5.1', 'Seeded search over histories of public calls on a pool of live static containers built from caller-held arrays: derivations enumerated from the public interface, failing calls, adversary writes into retained input buffers, pickle/deepcopy/copy steps; deep value snapshots of every live container and the read-only flag of every reachable array are re-checked after every step.',
            COMMON, 'deterministic simulation: seeded call histories with an adversary caller (writes to retained buffers) vs creation-time snapshots'),
    'C02': ('DESIGN 5.2', 'Seeded search over append/extend histories on every grow-only index type (plain, auto-integer, datetime, hierarchical, FrameGO columns) interleaved with cache-materialising reads, derivations and rejected growth calls; the label<->position bijection is re-checked on every live index after every step against a list model.',
            COMMON, 'deterministic simulation: seeded operation/fault histories vs reference model, invariant after every step'),
    'C05': ('DESIGN 5.3', 'Seeded search over IndexHierarchyGO append/extend histories x lazy-cache states x per-level selector queries (HLoc label/list/slice/all/mask, tuples, through Series and Frame); every view compared with a list-of-tuples model at every reached state.',
            COMMON, 'deterministic simulation: seeded histories with cache-state perturbation vs reference model'),
    'C09': ('DESIGN 5.4', 'Seeded search over interleavings of growth calls (setitem, extend Frame/Series, extend_items, append, extend; valid, duplicate, partially duplicate, mis-sized, unaligned, failing-iterable arguments) with derivations and reads over a pool of aliasing containers; prefix, lock-step, atomicity (incl. usability after a failed call, against a twin built from the model) and isolation oracles after every step.',
            COMMON, 'deterministic simulation with argument-induced fault injection (rejected / failing growth calls), model checked after every step'),
    'C17': ('DESIGN 5.5', 'Seeded search over access histories on lazily loaded Buses (max_persist None/1..n, zip-pickle/csv/tsv and SQLite, per-label configs, derived and re-exported Buses) interleaved with file-system fault events (touch, rewrite, replace, older copy, truncate, delete, recreate, restore, I/O errors inside the mtime check, an I/O error while the n-th member of the archive is read) under a simulated file clock, with label encoders, caller-owned configuration dicts and zipped stores read and written on the simulated worker pool; faithful/lazy/bound/LRU/same/placeholder/stale/heal oracles after every step.',
            COMMON + '; real files on tmpfs whose mtimes are stamped from the simulated clock', 'deterministic simulation: simulated file clock + file-system fault injection, history oracles (LRU, staleness, bounded heal)'),
    'C18': ('DESIGN 5.6', 'Seeded search over pool schedules: (a) task-granular simulated executor for thread and process pools (completion order, completion at submit time, chunking, worker counts, pickle round trips, task failures, worker crashes, unpicklable tasks) over every iterator interface, Batch chains and zipped stores with workers; (b) pre-emptive thread mode: real threads under a baton scheduler pre-empted at line events inside static_frame (uniformly, biased to state-writing functions, stalled inside them, or stalled right after a simulated lock is released), simulator-owned locks. Pool result compared with the sequential form.',
            COMMON + '; the executor stub implements the documented concurrent.futures contract of CPython 3.12', 'deterministic simulation: seeded simulated executor (completion orders, crashes) + baton-scheduled pre-emptive threads vs sequential form'),
    'C19': ('DESIGN 5.7', 'Seeded search over Quilt programs (shape, labels, iloc/loc/HLoc selection spanning member frames, iteration, export) interleaved with direct accesses to the underlying lazily loaded, LRU-bounded store-backed Bus and file events, and Batch chains through the simulated pool; every result compared with the same operation on a plain-NumPy reference table.',
            COMMON, 'deterministic simulation: LRU/eviction histories on the backing Bus + simulated pool vs NumPy reference table'),
}


def main():
    import sys
    sys.path.insert(0, VERIF)
    # which properties have registered checks
    src = open(os.path.join(VERIF, 'checks.py')).read()
    claimed = [p for p in sorted(CHECKS) if f"    '{p}': [" in src]
    checks = []
    for pid in claimed:
        ref, text, note, tech = CHECKS[pid]
        checks.append({
            'property_id': pid,
            'quick_cmd': f'/venv/bin/python /verif/run_check.py {pid} --tier quick',
            'thorough_cmd': f'/venv/bin/python /verif/run_check.py {pid} --tier thorough',
            'evidence_file': f'/verif/evidence/{pid}.json',
            'replay_cmd_template': '/venv/bin/python /verif/run_check.py --replay {path}',
            'engine': 'sim',
            'level_claimed': {'category': 'exploration', 'text': text + ' Sampled histories with exact replay: the right level because the claim quantifies over histories / schedules / fault sequences that no finite test list covers, and a clean batch is evidence, not proof.', 'design_ref': ref},
            'level_note': note,
            'technique': tech,
        })
    na = dict(NA)
    for pid in CHECKS:
        if pid not in claimed:
            na[pid] = f'claimed in {CHECKS[pid][0]}; its check is not built yet in this commit'
    m = {
        'version': 1,
        'setup_cmd': '/venv/bin/python /verif/selftest.py determinism --seeds 20',
        'hooks': {
            'guard': 'STATIC_FRAME_VERIF',
            'enable': "no hooks were added to /repo: checks import static_frame from /repo's working tree at run time and rebind seams (os.path.getmtime, executor classes, module-level locks, PositionsAllocator capacity) from outside",
            'baseline_off_cmd': 'cd /repo && /venv/bin/python -m pytest -ra -q -p no:cacheprovider --timeout=900 --continue-on-collection-errors',
            'source_commits': [],
            'add_only': True,
        },
        'engines': [{'name': 'sim', 'path': '/verif/sim', 'serves_properties': claimed,
                     'kind_free_text': 'seeded deterministic simulator written for this task: Chooser/Decider, event-log digests, SimExecutor, baton thread scheduler, simulated file clock, ddmin minimiser, replay files'}],
        'checks': checks,
        'not_applicable': [{'property_id': k, 'reason': v} for k, v in sorted(na.items())],
        'notes': 'Genuine defects found by these checks were repaired by fix: commits in /repo (KNOWN_FINDINGS.json, DESIGN.md 10); the rest are recorded as known findings. Exit code 2 = harness error (never a pass).',
    }
    with open(os.path.join(VERIF, 'MANIFEST.json'), 'w') as f:
        json.dump(m, f, indent=1)
    print('claimed', claimed)


if __name__ == '__main__':
    main()
