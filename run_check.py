#!/venv/bin/python
'''Entry point of every registered check.

  run_check.py <ID> --tier quick|thorough [--repo PATH] [--runs N] [--budget S] [--workers K]
  run_check.py --replay FILE [--repo PATH]

Exit 0: property held on everything explored (KNOWN-FINDING lines may be printed).
Exit 1: at least one line "VIOLATION property=<id> replay=<path>" was printed.
Exit 2: harness error (never a pass, never a violation).
'''
import argparse
import collections
import json
import os
import sys
import time
import traceback

VERIF = os.path.dirname(os.path.abspath(__file__))
sys.path.insert(0, VERIF)


def parse():
    ap = argparse.ArgumentParser()
    ap.add_argument('prop', nargs='?')
    ap.add_argument('--tier', default=os.environ.get('VERIF_TIER', 'quick'))
    ap.add_argument('--repo', default='/repo')
    ap.add_argument('--replay')
    ap.add_argument('--runs', type=int)
    ap.add_argument('--budget', type=float)
    ap.add_argument('--workers', type=int, default=min(16, os.cpu_count() or 4))
    ap.add_argument('--seed', type=int)
    ap.add_argument('--no-evidence', action='store_true')
    ap.add_argument('--no-confirm', action='store_true')
    return ap.parse_args()


def main():
    args = parse()
    if os.environ.get('PYTHONHASHSEED') is None:
        # fixed hash seed in a fresh interpreter: one fewer source of nondeterminism
        os.environ['PYTHONHASHSEED'] = '0'
        os.execv(sys.executable, [sys.executable] + sys.argv)
    repo = os.path.abspath(args.repo)
    sys.path.insert(0, repo)
    os.environ.pop('STATIC_FRAME_VERIF', None)
    import static_frame
    if not os.path.abspath(static_frame.__file__).startswith(repo + os.sep):
        print(f'HARNESS-ERROR static_frame imported from {static_frame.__file__}, not {repo}')
        return 2
    from sim import runner
    from sim.core import HarnessError
    import checks

    if args.replay:
        ok, r, rec = runner.replay_file(args.replay, checks.world_by_name)
        if ok:
            print(f"VIOLATION property={rec['property']} replay={args.replay}")
            return 1
        print('REPLAY did not reproduce the recorded violation')
        return 0

    spec = checks.CHECKS.get(args.prop)
    if spec is None:
        print(f'HARNESS-ERROR unknown property {args.prop}')
        return 2
    seed = args.seed if args.seed is not None else int(os.environ.get('VERIF_SEED', '20261002'))
    try:
        return checks.run_property(args.prop, spec, args.tier, seed, repo, args)
    except HarnessError as e:
        print(f'HARNESS-ERROR {e}')
        return 2
    except Exception:
        traceback.print_exc()
        print('HARNESS-ERROR unexpected exception in the checking machinery')
        return 2


if __name__ == '__main__':
    sys.exit(main())
