'''StoreWorld: access histories on lazily loaded, LRU-bounded Buses over real store files whose
modification times are owned by a simulated clock, interleaved with file-system fault events.
Serves C17 (and, through worlds/quilt.py, C19).  DESIGN.md 5.5.
'''
import os
import shutil
import tempfile

import numpy as np

from sim import executor as sx

from sim.core import Violation, canon, h64
from sim.snap import norm, norm_list, snap_frame, first_diff, dt
from worlds.base import WorldBase, Ent, SimulatedFailure, enc, dec, call

FMTS = ['zip_pickle', 'zip_csv', 'zip_tsv', 'sqlite']
EXT = {'zip_pickle': '.zip', 'zip_csv': '.zip', 'zip_tsv': '.zip', 'sqlite': '.sqlite'}
LABELS = ['fa', 'fb', 'fc', 'fd', 'fe', 'ff']
LABELS_EXT = ['fa.csv', 'fb.txt', 'fc.pickle', 'fd.csv.bak', 'fe', 'ff']  # labels that contain a store member extension
STRS = ['ab', 'cd', 'ef', 'gh', 'xy', 'zw']
ROWL = ['p', 'q', 'r', 's']
COLL = ['A', 'B', 'C', 'D']
BASE_NS = 1_700_000_000 * 10 ** 9
FS_EVENTS = ['touch', 'rewrite_same', 'rewrite_other', 'replace_older', 'truncate', 'delete',
             'delete_recreate', 'restore', 'replace_same_mtime']


# ------------------------------------------------------------------------------------------
# frame literals

def gen_frame_spec(ch, label, fmt, idepth, cdepth):
    zero_ok = fmt == 'zip_pickle'
    nr = ch.randint(0 if zero_ok else 1, 4)
    nc = ch.randint(0 if zero_ok else 1, 4)
    if idepth == 1:
        index = ch.sample(ROWL, nr) if ch.chance(0.6) else ch.sample(range(10, 20), nr)
        if fmt == 'sqlite' and index and isinstance(index[0], int) and ch.chance(0.85):
            index = sorted(index)  # a single integer index column becomes SQLite's rowid: rows come back sorted
    else:
        index = [[['u', 'v'][i // 2], i % 2 + 1] for i in range(nr)]
    if cdepth == 1:
        columns = ch.sample(COLL, nc)
        if fmt != 'sqlite' and ch.chance(0.2):
            columns = ch.sample(range(1, 9), nc)
    else:
        columns = [[['K', 'L'][j // 2], j % 2 + 1] for j in range(nc)]
    cols = []
    for _ in range(nc):
        kind = ch.choice(['int', 'float', 'str', 'bool'])
        if kind == 'int':
            cols.append([ch.randint(-50, 50) for _ in range(nr)])
        elif kind == 'float':
            cols.append([ch.choice([0.5, 1.5, -2.25, 3.75, 10.125]) for _ in range(nr)])
        elif kind == 'str':
            cols.append([ch.choice(STRS) for _ in range(nr)])
        else:
            cols.append([ch.chance(0.5) for _ in range(nr)])
    return {'name': label, 'index': index, 'idepth': idepth, 'columns': columns, 'cdepth': cdepth, 'cols': cols}


def alt_spec(spec):
    '''The "other" content used when a file is rewritten: same labels, every cell different.'''
    out = dict(spec)
    cols = []
    for c in spec['cols']:
        n = []
        for v in c:
            if isinstance(v, bool):
                n.append(not v)
            elif isinstance(v, int):
                n.append(v + 1000)
            elif isinstance(v, float):
                n.append(v + 0.5)
            else:
                n.append(v + 'Z')
        cols.append(n)
    out['cols'] = cols
    return out


def build_frame(sf, spec):
    nr = len(spec['index'])
    if spec['idepth'] == 2:
        index = sf.IndexHierarchy.from_labels([tuple(t) for t in spec['index']]) if nr else sf.IndexHierarchy.from_labels((), depth_reference=2)
    else:
        index = sf.Index(spec['index'])
    if spec['cdepth'] == 2:
        cc = sf.IndexHierarchy.from_labels
        labels = [tuple(t) for t in spec['columns']]
    else:
        cc = None
        labels = list(spec['columns'])
    if not labels:
        return sf.Frame(index=index, name=spec['name'])
    return sf.Frame.from_items(zip(labels, spec['cols']), index=index, name=spec['name'], columns_constructor=cc)


def kind_of(cells):
    if not cells:
        return None
    v = cells[0]
    if isinstance(v, bool):
        return 'b'
    if isinstance(v, int):
        return 'i'
    if isinstance(v, float):
        return 'f'
    return 'U'


def expected_reduced(spec):
    '''What any format must give back: name, labels, cells, dtype kind (per the measured envelope).'''
    def labs(ls, depth):
        return [tuple(norm(x) for x in t) for t in ls] if depth == 2 else norm_list(ls)
    return {'name': spec['name'], 'index': labs(spec['index'], spec['idepth']),
            'columns': labs(spec['columns'], spec['cdepth']),
            'cols': [(kind_of(c), norm_list(c)) for c in spec['cols']]}


def reduced(frame):
    def labs(ix):
        if ix.depth > 1:
            return [tuple(norm(x) for x in t) for t in ix.values.tolist()] if len(ix) else []
        return norm_list(ix.values.tolist())
    cols = []
    for a in frame.iter_array(axis=0):
        cells = a.tolist()
        cols.append((a.dtype.kind if len(cells) else None, norm_list(cells)))
    return {'name': norm(frame.name), 'index': labs(frame.index), 'columns': labs(frame.columns), 'cols': cols}


# ------------------------------------------------------------------------------------------

class SimFile:
    def __init__(self, path, fmt):
        self.path = path
        self.fmt = fmt
        self.contents = {}     # tag -> bytes ('orig', 'alt')
        self.cur = None        # tag of current bytes, or 'garbage' / None (deleted)
        self.mtime = None
        self.specs = {}        # tag -> {label: spec}
        self.labels = []
        self.cfg = None
        self.cfgmap = False
        self.cver = 0          # bumped by every event that rewrites / removes the file (not by a touch)
        self.last_event = None


class StoreWorld(WorldBase):
    NAME = 'store'

    @staticmethod
    def draw_config(ch, profile, tier):
        big = tier == 'thorough'
        n = ch.randint(1, 6)
        fmt = ch.weighted([('zip_pickle', 4), ('zip_csv', 2), ('zip_tsv', 2), ('sqlite', 2)])
        cfgmap = fmt != 'zip_pickle' and ch.chance(0.5)
        pool = LABELS_EXT if (fmt != 'sqlite' and ch.chance(0.15)) else LABELS
        labels = pool[:n] if ch.chance(0.5) else ch.sample(pool, n)
        if fmt != 'sqlite' and labels and ch.chance(0.1):
            labels[ch.randint(0, len(labels) - 1)] = ''  # the empty string is a label too (a member named by its extension alone)
        int_labels = fmt != 'zip_pickle' and ch.chance(0.12)
        if int_labels:
            # labels that are not strings, stored through a label encoder / decoder
            labels = ch.sample([10, 20, 30, 40, 50, 60], n)
        frames = []
        for lab in labels:
            idepth = ch.choice([1, 1, 2]) if (cfgmap or fmt == 'zip_pickle') else 1
            cdepth = ch.choice([1, 1, 1, 2]) if (cfgmap or fmt == 'zip_pickle') else 1
            frames.append(gen_frame_spec(ch, lab, fmt, idepth, cdepth))
            if cfgmap and idepth == 1 and len(frames[-1]['cols']) >= 2 and ch.chance(0.25):
                # a per-label configuration that differs from the default in what is *written*: no index column
                frames[-1]['noindex'] = True
                frames[-1]['index'] = list(range(len(frames[-1]['index'])))
        if not cfgmap and fmt != 'zip_pickle':
            d = ch.choice([1, 1, 2])
            c = ch.choice([1, 1, 2])
            frames = [gen_frame_spec(ch, lab, fmt, d, c) for lab in labels]
        workers = ch.choice([None, None, None, 2, 3]) if fmt in ('zip_csv', 'zip_tsv') else None
        mp = ch.choice([None, 1, 1, 2, 3, n, max(1, n - 1)])
        if mp is not None:
            mp = max(1, min(mp, n))
        return {
            'steps': ch.randint(3, 40 if big else 30),
            'fmt': fmt, 'frames': frames, 'cfgmap': cfgmap, 'max_persist': mp, 'workers': workers, 'int_labels': int_labels,
            'faults': ch.chance(0.5), 'p_fs': ch.choice([0.05, 0.1, 0.2]),
            'alloc_cap': ch.choice([4, 1024]),
            'pool_max': ch.randint(2, 4),
        }

    @staticmethod
    def nontrivial(stats):
        return any(k.startswith(('fault:', 'probe:evict', 'probe:load')) for k in stats)

    # ------------------------------------------------------------------ lifecycle
    def setup(self, log):
        super().setup(log)
        import static_frame as sf
        self.sf = sf
        self.dir = tempfile.mkdtemp(prefix='sfsim_', dir='/dev/shm' if os.path.isdir('/dev/shm') else None)
        self.clock = 0
        self.files = {}
        self.step_no = 0
        self.armed = None
        self._orig_getmtime = os.path.getmtime
        self._orig_exists = os.path.exists
        self._saved_executors = sx.install() if self.config.get('workers') else []
        cfg = self.config
        fid = 0
        f = SimFile(os.path.join(self.dir, 'store0' + EXT[cfg['fmt']]), cfg['fmt'])
        f.labels = [s['name'] for s in cfg['frames']]
        f.specs['orig'] = {s['name']: s for s in cfg['frames']}
        f.specs['alt'] = {s['name']: alt_spec(s) for s in cfg['frames']}
        f.cfg = self._store_config(cfg['frames'], cfg['cfgmap'], cfg['fmt'])
        f.cfgmap = bool(cfg['cfgmap']) and cfg['fmt'] != 'zip_pickle'
        self.files[fid] = f
        from static_frame.core.exception import StoreFileMutation
        self.StoreFileMutation = StoreFileMutation
        for tag in ('orig', 'alt'):
            self._write_file(f, tag)
        self._put(f, 'orig')
        self._open_bus(fid, cfg['max_persist'], h=None, op={'op': 'setup'})

    def teardown(self):
        if getattr(self, '_orig_zip_read', None) is not None:
            import zipfile
            zipfile.ZipFile.read = self._orig_zip_read
        sx.uninstall(getattr(self, '_saved_executors', []))
        os.path.getmtime = self._orig_getmtime
        os.path.exists = self._orig_exists
        shutil.rmtree(self.dir, ignore_errors=True)

    def state_hash(self):
        parts = []
        for h in sorted(self.ents):
            e = self.ents[h]
            if e.kind == 'bus':
                parts.append((h, tuple(e.extra.get('loaded', ())), tuple(e.model['labels'])))
        for fid in sorted(self.files):
            f = self.files[fid]
            parts.append((fid, f.cur, f.mtime))
        return h64(canon(parts))

    # ------------------------------------------------------------------ files and clock
    def _store_config(self, specs, cfgmap, fmt):
        sf = self.sf
        if fmt == 'zip_pickle':
            return sf.StoreConfig(label_encoder=str, label_decoder=int) if self.config.get('int_labels') else None
        wk = {}
        k = self.config.get('workers')
        if k and fmt in ('zip_csv', 'zip_tsv'):
            # multi-worker reading and writing of the zipped store (on the simulated executor): part of the same promise
            wk = {'read_max_workers': k, 'read_chunksize': 1 + k % 2, 'write_max_workers': k, 'write_chunksize': 1 + k % 2}
        if self.config.get('int_labels'):
            wk.update(label_encoder=str, label_decoder=int)
        if cfgmap:
            def one(s):
                if s.get('noindex'):
                    return sf.StoreConfig(index_depth=0, include_index=False, columns_depth=s['cdepth'], **wk)
                return sf.StoreConfig(index_depth=s['idepth'], columns_depth=s['cdepth'], **wk)
            return sf.StoreConfigMap({s['name']: one(s) for s in specs}, default=sf.StoreConfig(**wk))
        s = specs[0]
        return sf.StoreConfig(index_depth=s['idepth'], columns_depth=s['cdepth'], **wk)

    def tick(self, d=1):
        self.clock += d
        self.sim_time += d

    def _stamp(self, f, ns=None):
        if ns is None:
            ns = BASE_NS + self.clock * 10 ** 9
        os.utime(f.path, ns=(ns, ns))
        f.mtime = ns

    def _write_file(self, f, tag):
        '''Produce the bytes of content `tag` with the library's own exporter, remember them.'''
        sf = self.sf
        frames = [build_frame(sf, f.specs[tag][lab]) for lab in f.labels]
        bus = sf.Bus.from_frames(frames, config=f.cfg)
        tmp = f.path + '.tmp' + EXT[f.fmt]
        if os.path.exists(tmp):
            os.remove(tmp)
        own_sim = self.config.get('workers') and sx.CURRENT['sim'] is None
        if own_sim:
            # the harness's own writing of file contents: a fixed (first-in first-out) schedule, not part of the run's decisions
            from sim.core import Decider
            import collections
            sx.CURRENT['sim'] = sx.PoolSim(Decider(recorded=[]), collections.Counter(), p_early=0.0)
        try:
            if f.fmt == 'zip_pickle' and f.cfg is None:
                bus.to_zip_pickle(tmp)
            else:
                getattr(bus, 'to_' + f.fmt)(tmp, config=f.cfg)
        finally:
            if own_sim:
                sx.CURRENT['sim'] = None
        with open(tmp, 'rb') as fh:
            f.contents[tag] = fh.read()
        os.remove(tmp)

    def _put(self, f, tag, ns=None):
        with open(f.path, 'wb') as fh:
            fh.write(f.contents[tag] if tag in f.contents else b'not a store')
        f.cur = tag
        self._stamp(f, ns)

    def _open_bus(self, fid, mp, h, op):
        sf = self.sf
        f = self.files[fid]
        site = f'Bus.from_{f.fmt}'
        kw = {'max_persist': mp}
        if f.fmt != 'zip_pickle' or f.cfg is not None:
            kw['config'] = f.cfg
        caller_dict = None
        if isinstance(f.cfg, sf.StoreConfigMap) and not self.config.get('workers') and not self.config.get('int_labels') and self.step_no % 2 == 0:
            # the per-label configuration given as the caller's own dict, which the caller empties right after the call
            caller_dict = {lab: f.cfg[lab] for lab in f.labels}
            kw['config'] = caller_dict
        st, bus = call(getattr(sf.Bus, 'from_' + f.fmt), f.path, **kw)
        if caller_dict is not None:
            caller_dict.clear()
            self.fault('caller-cleared-its-config-dict-after-opening')
        if st == 'raise':
            if f.cur in ('orig', 'alt'):
                raise Violation('C17.faithful', site, self._cls(f, mp), f'opening an intact store raised {type(bus).__name__}: {bus}')
            return None
        if f.cur not in ('orig', 'alt'):
            return None  # a Bus opened on a damaged file: nothing is promised about it, not followed
        m = {'fid': fid, 'labels': list(f.labels), 'tag': f.cur, 'opened': (f.cur, f.mtime, f.cver), 'mp': mp,
             't': {}, 'root': True}
        e = self.add('bus', bus, m, False, origin=site, h=h)
        st, labs = call(lambda: list(bus.index))
        if st == 'raise' or [norm(x) for x in labs] != f.labels:
            raise Violation('C17.faithful', site, self._cls(f, mp), f'labels after reopening {labs!r} != written {f.labels!r}')
        e.extra['loaded'] = self._loaded(e, op)
        if any(e.extra['loaded']):
            raise Violation('C17.lazy', site, self._cls(f, mp), 'frames loaded at open')
        return e

    def _cls(self, f, mp):
        mpc = 'mp=None' if mp is None else ('mp=1' if mp == 1 else 'mp>1')
        return mpc + ('+cfgmap' if f.cfgmap else '')

    # ------------------------------------------------------------------ observation
    def _loaded(self, e, op):
        st, v = call(lambda: [bool(x) for x in e.obj.status['loaded'].values.tolist()])
        if st == 'raise':
            raise Violation('C17.lazy', 'Bus.status', '', f'status raised {type(v).__name__}: {v}')
        return v

    def _stale_kind(self, e):
        '''None if the backing file is exactly as when the store handle was created, else
        'must' (modified / replaced / removed: a store read must raise) or 'may' (only touched).'''
        m = e.model
        f = self.files[m['fid']]
        tag0, mt0, cver0 = m['opened']
        if f.cur == tag0 and f.mtime == mt0:
            return None  # byte- and mtime-identical to what the handle saw at open: no observer can tell
        if f.cur == tag0 and f.cur is not None and f.cver == cver0:
            return 'may'  # only touched: contents are what they were; raising is allowed, so is serving
        return 'must'

    def _stale_cls(self, e):
        f = self.files[e.model['fid']]
        tag0, mt0, cver0 = e.model['opened']
        if f.cur is None:
            return 'removed'
        if f.cur == 'garbage':
            return 'truncated'
        if f.cur != tag0:
            if f.mtime == mt0:
                return 'replaced-with-same-mtime'
            return 'replaced-by-older-copy' if f.mtime < mt0 else 'replaced'
        return 'rewritten-with-same-bytes' if f.cver != cver0 else 'touched'

    def expected_frame(self, e, label):
        f = self.files[e.model['fid']]
        return f.specs[e.model['tag']][label]

    # ------------------------------------------------------------------ generation
    def gen_op(self, ch):
        buses = self.handles(lambda e: e.kind == 'bus')
        its = self.handles(lambda e: e.kind == 'it')
        if not buses:
            return {'op': 'reopen', 'fid': 0, 'mp': self.config['max_persist'], 'out': self.next_h}
        if self.config['faults'] and ch.chance(self.config['p_fs']):
            return self.gen_fs(ch)
        menu = [('get_one', 6), ('get_list', 4), ('get_slice', 2), ('get_bool', 1.5), ('iloc', 3), ('status', 2),
                ('items_start', 1.5), ('items_next', 5 if its else 0), ('values', 1), ('iter_element', 1),
                ('get', 1.5), ('keys', 1), ('derive', 2.5 if len(buses) < self.config['pool_max'] + 2 else 0.3),
                ('export', 0.7 if len(self.files) < 3 else 0), ('reopen', 0.7), ('drop_ent', 0.5 if len(buses) > 2 else 0),
                ('items_all', 0.7), ('equals', 0.3)]
        what = ch.weighted(menu)
        return getattr(self, 'gen_' + what)(ch, buses, its)

    def gen_fs(self, ch):
        fid = ch.choice(sorted(self.files))
        f = self.files[fid]
        ev = ch.weighted([('touch', 2), ('rewrite_same', 2), ('rewrite_other', 3), ('replace_older', 2), ('truncate', 1.5),
                          ('delete', 1.5), ('delete_recreate', 1), ('restore', 5), ('replace_same_mtime', 1),
                          ('arm_getmtime_oserror', 0.7), ('arm_vanish', 0.7), ('arm_read_error', 3.0 if f.fmt.startswith('zip') else 0)])
        op = {'op': 'fs', 'fid': fid, 'ev': ev, 'dt': ch.randint(1, 100)}
        if ev.startswith('arm_'):
            op['nth'] = ch.weighted([(1, 5), (2, 3), (3, 2)]) if ev != 'arm_read_error' else ch.weighted([(1, 2), (2, 5), (3, 3)])  # which check / member read of the next operation fails
        return op

    def _pick_bus(self, ch, buses):
        return ch.choice(buses)

    def gen_get_one(self, ch, buses, its):
        h = self._pick_bus(ch, buses)
        labs = self.ents[h].model['labels']
        if not labs:
            return self.gen_status(ch, buses, its)
        return {'op': 'get_one', 'h': h, 'label': ch.choice(labs), 'via': ch.choice(['getitem', 'loc'])}

    def gen_get_list(self, ch, buses, its):
        h = self._pick_bus(ch, buses)
        labs = self.ents[h].model['labels']
        if not labs:
            return self.gen_status(ch, buses, its)
        k = ch.randint(1, len(labs))
        return {'op': 'get_list', 'h': h, 'labels': ch.sample(labs, k), 'via': ch.choice(['getitem', 'loc']), 'out': self.next_h}

    def gen_get_slice(self, ch, buses, its):
        h = self._pick_bus(ch, buses)
        labs = self.ents[h].model['labels']
        if not labs:
            return self.gen_status(ch, buses, its)
        a = ch.randint(0, len(labs) - 1)
        b = ch.randint(a, len(labs) - 1)
        return {'op': 'get_slice', 'h': h, 'a': labs[a], 'b': labs[b], 'out': self.next_h}

    def gen_get_bool(self, ch, buses, its):
        h = self._pick_bus(ch, buses)
        labs = self.ents[h].model['labels']
        if not labs:
            return self.gen_status(ch, buses, its)
        return {'op': 'get_bool', 'h': h, 'mask': [ch.chance(0.5) for _ in labs], 'out': self.next_h}

    def gen_iloc(self, ch, buses, its):
        h = self._pick_bus(ch, buses)
        n = len(self.ents[h].model['labels'])
        if not n:
            return self.gen_status(ch, buses, its)
        kind = ch.choice(['int', 'list', 'slice', 'neg'])
        if kind == 'int':
            key = ch.randint(0, n - 1)
        elif kind == 'neg':
            key = -ch.randint(1, n)
        elif kind == 'list':
            key = ch.sample(range(n), ch.randint(1, n))
        else:
            a = ch.randint(0, n - 1)
            key = {'s': [a, ch.randint(a + 1, n)]}
        return {'op': 'iloc', 'h': h, 'key': key, 'out': self.next_h, 'np': ch.chance(0.3)}

    def gen_status(self, ch, buses, its):
        return {'op': 'status', 'h': self._pick_bus(ch, buses),
                'what': ch.choice(['status', 'shapes', 'mloc', 'dtypes', 'nbytes', 'display', 'repr', 'len', 'shape', 'index', 'contains', 'name'])}

    def gen_keys(self, ch, buses, its):
        return {'op': 'status', 'h': self._pick_bus(ch, buses), 'what': ch.choice(['keys', 'iter', 'reversed', 'contains'])}

    def gen_items_start(self, ch, buses, its):
        return {'op': 'items_start', 'h': self._pick_bus(ch, buses), 'out': self.next_h}

    def gen_items_next(self, ch, buses, its):
        return {'op': 'items_next', 'it': ch.choice(its)}

    def gen_items_all(self, ch, buses, its):
        return {'op': 'items_all', 'h': self._pick_bus(ch, buses)}

    def gen_values(self, ch, buses, its):
        return {'op': 'values', 'h': self._pick_bus(ch, buses)}

    def gen_iter_element(self, ch, buses, its):
        return {'op': 'iter_element', 'h': self._pick_bus(ch, buses), 'items': ch.chance(0.5)}

    def gen_get(self, ch, buses, its):
        h = self._pick_bus(ch, buses)
        labs = self.ents[h].model['labels']
        return {'op': 'get', 'h': h, 'label': ch.choice(labs + ['absent'])}

    def gen_equals(self, ch, buses, its):
        return {'op': 'equals', 'h': self._pick_bus(ch, buses), 'other_h': self._pick_bus(ch, buses)}

    def gen_derive(self, ch, buses, its):
        h = self._pick_bus(ch, buses)
        labs = self.ents[h].model['labels']
        how = ch.choice(['drop_loc', 'drop_iloc', 'reindex', 'sort_index', 'sort_index_desc', 'rename', 'head', 'tail', 'copy_sel', 'sort_values'])
        op = {'op': 'derive', 'h': h, 'how': how, 'out': self.next_h}
        if not labs:
            return self.gen_status(ch, buses, its)
        if how == 'drop_loc':
            op['labels'] = ch.sample(labs, ch.randint(1, max(1, len(labs) - 1)))
        elif how == 'drop_iloc':
            op['k'] = ch.randint(0, len(labs) - 1)
        elif how == 'reindex':
            op['labels'] = ch.sample(labs, ch.randint(1, len(labs)))
        elif how in ('roll', 'head', 'tail'):
            op['k'] = ch.randint(1, 3)
        return op

    def gen_export(self, ch, buses, its):
        h = self._pick_bus(ch, buses)
        fmt = ch.choice(['zip_pickle', 'zip_pickle', self.config['fmt'], self.config['fmt']])
        return {'op': 'export', 'h': h, 'fmt': fmt, 'fid': max(self.files) + 1, 'out': self.next_h,
                'mp': ch.choice([None, 1, 2]), 'cform': ch.choice(['map', 'map', 'default', 'bare', 'default_noindex', 'empty_dict', 'empty_dict']), 'noenc': ch.chance(0.2)}

    def gen_reopen(self, ch, buses, its):
        fid = ch.choice(sorted(self.files))
        n = len(self.files[fid].labels)
        mp = ch.choice([None, 1, 2, n])
        if mp is not None:
            mp = max(1, min(mp, max(n, 1)))
        return {'op': 'reopen', 'fid': fid, 'mp': mp, 'out': self.next_h}

    def gen_drop_ent(self, ch, buses, its):
        return {'op': 'drop_ent', 'h': ch.choice(buses)}

    # ------------------------------------------------------------------ application
    def apply(self, op, dec_):
        self.step_no += 1
        self.opstat(op['op'])
        self._current = None
        if self.config.get('workers'):
            sx.CURRENT['sim'] = sx.PoolSim(dec_, self.stats, p_early=0.3)
        try:
            return getattr(self, 'do_' + op['op'])(op, dec_)
        finally:
            sim = sx.CURRENT['sim']
            if sim is not None and sim.completions:
                self.stats['pool:tasks'] += sim.completions
                self.probe('store-read-or-written-by-several-workers')
            sx.CURRENT['sim'] = None

    def quarantine(self, op):
        for k in ('h', 'out', 'it'):
            h = op.get(k)
            if h is not None and h in self.ents:
                del self.ents[h]
        if self._current is not None and self._current in self.ents:
            del self.ents[self._current]
        self._current = None

    def finish(self):
        for h in self.handles(lambda e: e.kind == 'bus'):
            e = self.ents[h]
            self._current = h
            self._post(e, {'op': 'finish'}, 'finish', set(), e.extra.get('loaded', []), None)
        self._current = None

    # -- fs events
    def do_fs(self, op, dec_):
        f = self.files.get(op['fid'])
        if f is None:
            return 'skip'
        ev = op['ev']
        self.tick(op.get('dt', 1))
        f.last_event = ev
        self.armed_nth = op.get('nth', 1)
        if ev == 'arm_getmtime_oserror':
            self.armed = 'oserror'
            self.fault('armed-getmtime-oserror')
            return 'armed'
        if ev == 'arm_vanish':
            self.armed = 'vanish'
            self.fault('armed-vanish-between-exists-and-getmtime')
            return 'armed'
        if ev == 'arm_read_error':
            self.armed = 'readerror'
            self.fault('armed-read-error-inside-the-archive')
            return 'armed'
        exists = f.cur is not None
        if ev not in ('touch', 'restore'):
            f.cver = max(f.cver, getattr(self, '_cver_max', 0)) + 1
            self._cver_max = f.cver
        if ev == 'touch':
            if not exists:
                return 'noop'
            self._stamp(f)
        elif ev == 'rewrite_same':
            if f.cur not in f.contents:
                return 'noop'
            self._put(f, f.cur)
        elif ev == 'rewrite_other':
            self._put(f, 'alt' if f.cur != 'alt' else 'orig')
        elif ev == 'replace_older':
            self._put(f, 'alt' if f.cur != 'alt' else 'orig', ns=BASE_NS - self.clock * 10 ** 9)
        elif ev == 'replace_same_mtime':
            if not exists or f.mtime is None:
                return 'noop'
            self._put(f, 'alt' if f.cur != 'alt' else 'orig', ns=f.mtime)
        elif ev == 'truncate':
            if not exists:
                return 'noop'
            data = f.contents.get(f.cur, b'xx')
            with open(f.path, 'wb') as fh:
                fh.write(data[:max(1, len(data) // 3)])
            f.cur = 'garbage'
            self._stamp(f)
        elif ev == 'delete':
            if exists:
                os.remove(f.path)
            f.cur = None
            f.mtime = None
        elif ev == 'delete_recreate':
            if exists:
                os.remove(f.path)
            self._put(f, 'orig')
        elif ev == 'restore':
            # heal: the bytes and the mtime the oldest live handle on this file saw
            target = None
            for h in self.handles(lambda e: e.kind == 'bus' and e.model['fid'] == op['fid']):
                target = self.ents[h].model['opened']
                break
            if target is None:
                target = ('orig', BASE_NS, 0)
            self._put(f, target[0], ns=target[1])
            f.cver = target[2]
            self.fault('heal')
            return 'restored'
        self.fault('fs-' + ev)
        return 'ok'

    # -- arming mid-call faults: the next os.path.getmtime / exists pair misbehaves once
    def _arm(self, f):
        if self.armed is None:
            return
        kind = self.armed
        self.armed = None
        world = self
        orig_getmtime = self._orig_getmtime
        state = {'fired': False, 'n': 0}
        nth = getattr(self, 'armed_nth', 1)

        if kind == 'readerror':
            # a disk error while the n-th member of the archive is read (the file itself is intact and unchanged)
            import zipfile
            orig_read = zipfile.ZipFile.read
            self._orig_zip_read = orig_read

            def zread(zself, name, *a, **k):
                if not state['fired'] and os.path.abspath(str(zself.filename)) == os.path.abspath(f.path):
                    state['n'] += 1
                    if state['n'] >= nth:
                        state['fired'] = True
                        zipfile.ZipFile.read = orig_read
                        world.fault('fired-read-error')
                        if nth > 1:
                            world.probe('read-failed-after-earlier-members-were-read')
                        raise OSError(5, 'simulated I/O error reading an archive member')
                return orig_read(zself, name, *a, **k)
            zipfile.ZipFile.read = zread
            self._armed_state = state
            return

        def getmtime(p):
            if not state['fired'] and os.path.abspath(p) == os.path.abspath(f.path):
                state['n'] += 1
                if state['n'] < nth:
                    return orig_getmtime(p)
                state['fired'] = True
                if nth > 1:
                    world.probe('mtime-check-failed-in-the-middle-of-an-operation')
                os.path.getmtime = orig_getmtime
                world.fault('fired-' + kind)
                if kind == 'oserror':
                    raise OSError(5, 'simulated I/O error reading mtime')
                raise FileNotFoundError(2, 'simulated: file vanished between exists() and getmtime()')
            return orig_getmtime(p)
        os.path.getmtime = getmtime
        self._armed_state = state

    def _disarm(self):
        os.path.getmtime = self._orig_getmtime
        if getattr(self, '_orig_zip_read', None) is not None:
            import zipfile
            zipfile.ZipFile.read = self._orig_zip_read
            self._orig_zip_read = None
        st = getattr(self, '_armed_state', None)
        self._armed_state = None
        return bool(st and st['fired'])

    # -- the core: run an access, then check every oracle
    def _access(self, e, op, site, addressed, fn):
        '''addressed: set of labels the operation addresses. fn() performs it and returns
        a list of (label, frame) pairs obtained (frames promised by the accessor) plus an optional derived Bus.'''
        m = e.model
        f = self.files[m['fid']]
        before = e.extra.get('loaded')
        if before is None:
            before = self._loaded(e, op)
        loaded_before = {lab for lab, l in zip(m['labels'], before) if l}
        needs_read = bool(addressed - loaded_before)
        stale = self._stale_kind(e)
        self._current = e.h
        self._arm(f)
        st, res = call(fn)
        fired = self._disarm()
        cls = self._cls(f, m['mp'])
        self._last_raised = st == 'raise'
        if fired:
            # mid-call fault: the call must raise something and hand back no data
            if st == 'ok':
                raise Violation('C17.stale.midcall', site, cls, 'an I/O error while checking the file was swallowed and data returned')
            for lab in addressed:
                m['t'].pop(lab, None)
            loaded_after = self._loaded(e, op)
            if (stale == 'must' and self._stale_cls(e) == 'replaced-with-same-mtime' and before is not None and loaded_after is not None
                    and any(a and not b for a, b in zip(loaded_after, before))):
                # before the injected error ended the call, frames were read from a file replaced with the same mtime and kept:
                # the known finding (detection is by modification time), whatever the access site
                raise Violation('C17.stale', 'Store', 'replaced-with-same-mtime', 'file was replaced-with-same-mtime after the Bus was created, yet a store read returned data (kept by a call that failed later)')
            e.extra['loaded'] = loaded_after
            return None
        if stale is not None:
            self.probe('access-while-stale')
        self._last_raised = st == 'raise'
        if st == 'raise':
            if isinstance(res, Violation):
                raise res
            if stale is None:
                healed = f.last_event == 'restore'
                raise Violation('C17.heal' if healed else 'C17.same', site, cls,
                                f'access on an intact{" (restored)" if healed else ""} store raised {type(res).__name__}: {res}')
            if not isinstance(res, self.StoreFileMutation) and needs_read and stale == 'must':
                raise Violation('C17.stale.class', site, self._stale_cls(e), f'stale store read raised {type(res).__name__}: {res}')
            self.fault('stale-read-raised')
            # a multi-label operation may have served (and so refreshed) some labels before it failed:
            # their recency is unknown to the model until they are addressed again
            for lab in addressed:
                m['t'].pop(lab, None)
            e.extra['loaded'] = self._loaded(e, op)
            self._post(e, op, site, addressed, before, None, changed_ok=True)
            return None
        # returned
        pairs, derived = res
        if stale == 'must' and needs_read:
            scls = self._stale_cls(e)
            # detection is by modification time; a replacement that preserves it is one finding whatever the access site
            raise Violation('C17.stale', 'Store' if scls == 'replaced-with-same-mtime' else site, scls, f'file was {self._stale_cls(e)} after the Bus was created, yet a store read returned data')
        if stale is not None and needs_read:
            self.probe('touched-file-read-allowed')
        if f.last_event == 'restore' and stale is None:
            self.probe('served-after-heal')
        self._check_frames(e, op, site, cls, pairs)
        e.extra['loaded'] = self._loaded(e, op)
        for lab in addressed:
            m['t'][lab] = self.step_no
        self._post(e, op, site, addressed, before, pairs)
        return derived

    def _check_frames(self, e, op, site, cls, pairs):
        sf = self.sf
        m = e.model
        f = self.files[m['fid']]
        for lab, fr in pairs:
            if not isinstance(fr, sf.Frame):
                raise Violation('C17.placeholder', site, cls, f'accessor returned {fr!r} for label {lab!r}')
            spec = self.expected_frame(e, lab)
            st, got = call(reduced, fr)
            if st == 'raise':
                raise Violation('C17.same', site, cls, f'frame for {lab!r} unreadable: {type(got).__name__}: {got}')
            ex = expected_reduced(spec)
            if got != ex and f.fmt == 'sqlite' and spec['idepth'] == 1 and spec['index'] and isinstance(spec['index'][0], int):
                order = sorted(range(len(spec['index'])), key=lambda i: spec['index'][i])
                srt = dict(spec)
                srt['index'] = [spec['index'][i] for i in order]
                srt['cols'] = [[c[i] for i in order] for c in spec['cols']]
                if got == expected_reduced(srt):
                    raise Violation('C17.faithful', 'StoreSQLite.read', 'single-int-index-rows-come-back-sorted',
                                    f'label {lab!r}: written index {spec["index"]} read back as {srt["index"]}')
            if got != ex:
                oracle = 'C17.config' if f.cfgmap else 'C17.same'
                if m['tag'] != f.cur and f.cur in f.specs and got == expected_reduced(f.specs[f.cur][lab]):
                    oracle = 'C17.stale'
                raise Violation(oracle, site, cls, f'label {lab!r}: ' + first_diff(ex, got))
            if f.fmt == 'zip_pickle':
                st, full = call(snap_frame, fr)
                st2, exf = call(lambda: snap_frame(build_frame(sf, spec)))
                if st == 'ok' and st2 == 'ok' and full != exf:
                    raise Violation('C17.faithful', site, cls + '+pickle', f'label {lab!r}: ' + first_diff(exf, full))
            self.stats['frames_checked'] += 1

    def _post(self, e, op, site, addressed, before, pairs, changed_ok=False):
        '''bound, lazy, LRU after an operation on e.'''
        m = e.model
        f = self.files[m['fid']]
        cls = self._cls(f, m['mp'])
        loaded = e.extra.get('loaded')
        if loaded is None or len(loaded) != len(m['labels']):
            return
        now = {lab for lab, l in zip(m['labels'], loaded) if l}
        was = {lab for lab, l in zip(m['labels'], before) if l} if before is not None and len(before) == len(m['labels']) else set()
        if m['mp'] is not None and len(now) > m['mp']:
            raise Violation('C17.bound', site, cls, f'{len(now)} frames loaded, max_persist={m["mp"]}')
        new = now - was
        if new - addressed:
            raise Violation('C17.lazy', site, cls, f'labels {sorted(new - addressed)} were loaded but not addressed (addressed {sorted(addressed)})')
        if new:
            self.probe('load')
        if was - now:
            self.probe('evict')
            if (was - now) & addressed:
                pass
        if m['mp'] is not None:
            t = m['t']
            for L in now:
                for U in m['labels']:
                    if U not in now and U in t and t.get(L, -1) < t[U] and L in t:
                        raise Violation('C17.lru', site, cls, f'{L!r} (last addressed at step {t[L]}) is loaded while {U!r} (step {t[U]}) was evicted')
            if was - now and any(lab in t for lab in (was - now)):
                self.probe('evicted-frame-previously-addressed')

    def _new_bus(self, parent, bus, labels, h, site):
        '''Enter a derived Bus into the pool.'''
        sf = self.sf
        if not isinstance(bus, sf.Bus):
            return None
        pm = parent.model
        m = {'fid': pm['fid'], 'labels': list(labels), 'tag': pm['tag'], 'opened': pm['opened'], 'mp': pm['mp'],
             't': {}, 'root': False}
        e = self.add('bus', bus, m, False, origin=site, h=h)
        st, labs = call(lambda: [norm(x) for x in bus.index])
        if st == 'raise' or labs != list(labels):
            raise Violation('C17.same', site, self._cls(self.files[pm['fid']], pm['mp']), f'derived Bus labels {labs!r} != {labels!r}')
        e.extra['loaded'] = self._loaded(e, {'op': 'derive'})
        for lab, l in zip(labels, e.extra['loaded']):
            if l:
                m['t'][lab] = self.step_no
        self._post(e, {'op': 'derive'}, site, set(labels), [False] * len(labels), None)
        return e

    # -- client ops
    def do_get_one(self, op, dec_):
        e = self.get(op['h'], ('bus',))
        if e is None or op['label'] not in e.model['labels']:
            return 'skip'
        lab = op['label']
        bus = e.obj
        via = op.get('via', 'getitem')
        site = f'Bus.{"__getitem__" if via == "getitem" else "loc"}(label)'

        def fn():
            fr = bus[lab] if via == 'getitem' else bus.loc[lab]
            return [(lab, fr)], None
        self._access(e, op, site, {lab}, fn)
        return 'ok'

    def _sel(self, e, op, site, labels, key_fn):
        '''Selection returning a derived Bus: addresses `labels` (in that order).'''
        bus = e.obj

        def fn():
            r = key_fn(bus)
            return [], r
        derived = self._access(e, op, site, set(labels), fn)
        if derived is None:
            return 'raised-or-none'
        if isinstance(derived, self.sf.Frame):
            self._check_frames(e, op, site, self._cls(self.files[e.model['fid']], e.model['mp']), [(labels[0], derived)])
            return 'frame'
        d = self._new_bus(e, derived, labels, op.get('out'), site)
        if d is not None:
            self.stats['derived_bus'] += 1
        return 'ok'

    def do_get_list(self, op, dec_):
        e = self.get(op['h'], ('bus',))
        if e is None:
            return 'skip'
        labels = [l for l in op['labels'] if l in e.model['labels']]
        if not labels:
            return 'skip'
        via = op.get('via', 'getitem')
        return self._sel(e, op, f'Bus.{"__getitem__" if via == "getitem" else "loc"}(list)', labels,
                         (lambda b: b[labels]) if via == 'getitem' else (lambda b: b.loc[labels]))

    def do_get_slice(self, op, dec_):
        e = self.get(op['h'], ('bus',))
        if e is None:
            return 'skip'
        labs = e.model['labels']
        if op['a'] not in labs or op['b'] not in labs or labs.index(op['a']) > labs.index(op['b']):
            return 'skip'
        sel = labs[labs.index(op['a']): labs.index(op['b']) + 1]
        return self._sel(e, op, 'Bus.__getitem__(slice)', sel, lambda b: b[op['a']:op['b']])

    def do_get_bool(self, op, dec_):
        e = self.get(op['h'], ('bus',))
        if e is None:
            return 'skip'
        labs = e.model['labels']
        mask = list(op['mask'])[:len(labs)] + [False] * max(0, len(labs) - len(op['mask']))
        sel = [l for l, k in zip(labs, mask) if k]
        if not sel:
            return 'skip'
        return self._sel(e, op, 'Bus.__getitem__(bool)', sel, lambda b: b[np.array(mask, dtype=bool)])

    def do_iloc(self, op, dec_):
        e = self.get(op['h'], ('bus',))
        if e is None:
            return 'skip'
        labs = e.model['labels']
        n = len(labs)
        key = op['key']
        if isinstance(key, dict):
            a, b = key['s']
            if a >= n:
                return 'skip'
            sel = labs[a:b]
            k = slice(a, b)
            kind = 'slice'
        elif isinstance(key, list):
            key = [i for i in key if i < n]
            if not key:
                return 'skip'
            sel = [labs[i] for i in key]
            k = key
            kind = 'list'
        else:
            if not (-n <= key < n):
                return 'skip'
            sel = [labs[key]]
            k = key
            kind = 'int'
        if not sel:
            return 'skip'
        site = f'Bus.iloc({kind})'
        if op.get('np'):
            # positions as NumPy integers / arrays, as they come out of np.arange, argsort or a loop over positions
            k = np.int64(k) if kind == 'int' else np.array(k, dtype=np.int64) if kind == 'list' else k
        if kind == 'int':
            bus = e.obj

            def fn():
                return [(sel[0], bus.iloc[k])], None
            self._access(e, op, site, set(sel), fn)
            return 'ok'
        return self._sel(e, op, site, sel, lambda b: b.iloc[k])

    def do_status(self, op, dec_):
        e = self.get(op['h'], ('bus',))
        if e is None:
            return 'skip'
        bus = e.obj
        what = op['what']
        labs = e.model['labels']
        fns = {
            'status': lambda: bus.status, 'shapes': lambda: bus.shapes, 'mloc': lambda: bus.mloc,
            'dtypes': lambda: bus.dtypes, 'nbytes': lambda: bus.nbytes, 'display': lambda: bus.display(),
            'repr': lambda: repr(bus), 'len': lambda: len(bus), 'shape': lambda: bus.shape,
            'index': lambda: bus.index, 'contains': lambda: (labs[0] if labs else 'zz') in bus, 'name': lambda: bus.name,
            'keys': lambda: list(bus.keys()), 'iter': lambda: list(bus), 'reversed': lambda: list(reversed(bus)),
        }
        site = f'Bus.{what}'

        def fn():
            fns[what]()
            return [], None
        before = e.extra.get('loaded')
        st, r = call(fn)
        e.extra['loaded'] = self._loaded(e, op)
        if before is not None and e.extra['loaded'] != before:
            raise Violation('C17.lazy', site, self._cls(self.files[e.model['fid']], e.model['mp']),
                            f'a label-only / status operation changed the loaded set {before} -> {e.extra["loaded"]}')
        if what == 'keys' and st == 'ok':
            pass
        return 'ok' if st == 'ok' else 'raise:' + type(r).__name__

    def do_items_start(self, op, dec_):
        e = self.get(op['h'], ('bus',))
        if e is None:
            return 'skip'
        st, it = call(lambda: iter(e.obj.items()))
        if st == 'raise':
            return 'raise'
        ie = self.add('it', it, {'bus': e.h, 'pos': 0}, False, origin='Bus.items', h=op.get('out'))
        return 'ok'

    def do_items_next(self, op, dec_):
        ie = self.get(op['it'], ('it',))
        if ie is None:
            return 'skip'
        e = self.get(ie.model['bus'], ('bus',))
        if e is None:
            del self.ents[ie.h]
            return 'skip'
        pos = ie.model['pos']
        labs = e.model['labels']
        if pos >= len(labs):
            st, r = call(next, ie.obj, None)
            del self.ents[ie.h]
            return 'exhausted'
        lab = labs[pos]
        site = 'Bus.items().next'
        # with max_persist=None the first next() loads everything at once
        addressed = set(labs) if e.model['mp'] is None else {lab}

        def fn():
            l, fr = next(ie.obj)
            if norm(l) != lab:
                raise Violation('C17.same', site, '', f'items() yielded label {l!r}, expected {lab!r}')
            return [(lab, fr)], None
        r = self._access(e, op, site, addressed, fn)
        ie.model['pos'] = pos + 1
        if self._last_raised and ie.h in self.ents:
            del self.ents[ie.h]  # an exception inside a generator finalises it
        self.probe('generator-advanced-between-other-ops')
        return 'ok'

    def do_items_all(self, op, dec_):
        e = self.get(op['h'], ('bus',))
        if e is None:
            return 'skip'
        bus = e.obj
        labs = e.model['labels']

        def fn():
            out = []
            for (l, fr), lab in zip(bus.items(), labs):
                out.append((lab, fr))
                if norm(l) != lab:
                    raise Violation('C17.same', 'Bus.items', '', f'items() yielded label {l!r}, expected {lab!r}')
            if len(out) != len(labs):
                raise Violation('C17.same', 'Bus.items', '', f'items() yielded {len(out)} pairs, expected {len(labs)}')
            return out, None
        self._access(e, op, 'Bus.items', set(labs), fn)
        return 'ok'

    def do_values(self, op, dec_):
        e = self.get(op['h'], ('bus',))
        if e is None:
            return 'skip'
        bus = e.obj
        labs = e.model['labels']

        def fn():
            v = bus.values
            return list(zip(labs, list(v))), None
        self._access(e, op, 'Bus.values', set(labs), fn)
        return 'ok'

    def do_iter_element(self, op, dec_):
        e = self.get(op['h'], ('bus',))
        if e is None:
            return 'skip'
        bus = e.obj
        labs = e.model['labels']
        items = op.get('items')

        def fn():
            if items:
                got = [fr for _, fr in bus.iter_element_items()]
            else:
                got = list(bus.iter_element())
            return list(zip(labs, got)), None
        self._access(e, op, 'Bus.iter_element_items' if items else 'Bus.iter_element', set(labs), fn)
        return 'ok'

    def do_get(self, op, dec_):
        e = self.get(op['h'], ('bus',))
        if e is None:
            return 'skip'
        bus = e.obj
        lab = op['label']
        if lab not in e.model['labels']:
            st, r = call(bus.get, lab, 'dflt')
            if st == 'ok' and r != 'dflt':
                raise Violation('C17.same', 'Bus.get', 'absent', f'get of an absent label returned {r!r}')
            return 'absent'

        def fn():
            return [(lab, bus.get(lab))], None
        self._access(e, op, 'Bus.get', {lab}, fn)
        return 'ok'

    def do_equals(self, op, dec_):
        e = self.get(op['h'], ('bus',))
        o = self.get(op['other_h'], ('bus',))
        if e is None or o is None or e.h == o.h:
            return 'skip'
        if self._stale_kind(e) is not None or self._stale_kind(o) is not None:
            return 'skip'
        same = (e.model['labels'] == o.model['labels'] and
                all(expected_reduced(self.expected_frame(e, l)) == expected_reduced(self.expected_frame(o, l)) for l in e.model['labels']))
        st, r = call(e.obj.equals, o.obj)
        for x in (e, o):
            x.extra['loaded'] = self._loaded(x, op)
            for lab in x.model['labels']:
                x.model['t'][lab] = self.step_no
        if st == 'raise':
            self.stats['equals_raised'] += 1  # Frame.equals is C10's territory (zero-sized frames raise here)
            return 'raise'
        if bool(r) != same:
            raise Violation('C17.same', 'Bus.equals', self._cls(self.files[e.model['fid']], e.model['mp']), f'equals -> {r}, expected {same}')
        for x in (e, o):
            self._post(x, op, 'Bus.equals', set(x.model['labels']), [False] * len(x.model['labels']), None)
        return 'ok'

    def do_derive(self, op, dec_):
        e = self.get(op['h'], ('bus',))
        if e is None:
            return 'skip'
        bus = e.obj
        labs = e.model['labels']
        how = op['how']
        n = len(labs)
        if how == 'drop_loc':
            d = [l for l in op.get('labels', []) if l in labs]
            if not d or len(d) == n:
                return 'skip'
            new = [l for l in labs if l not in d]
            fn = lambda: bus.drop[d]
        elif how == 'drop_iloc':
            k = op.get('k', 0)
            if k >= n or n < 2:
                return 'skip'
            new = labs[:k] + labs[k + 1:]
            fn = lambda: bus.drop.iloc[k]
        elif how == 'reindex':
            new = [l for l in op.get('labels', []) if l in labs]
            if not new:
                return 'skip'
            fn = lambda: bus.reindex(new, fill_value=None)
        elif how == 'sort_index':
            new = sorted(labs)
            fn = lambda: bus.sort_index()
        elif how == 'sort_index_desc':
            new = sorted(labs, reverse=True)
            fn = lambda: bus.sort_index(ascending=False)
        elif how == 'roll':
            k = op.get('k', 1) % max(n, 1)
            new = labs[-k:] + labs[:-k] if k else list(labs)
            fn = lambda: bus.roll(op.get('k', 1))
        elif how == 'rename':
            new = list(labs)
            fn = lambda: bus.rename('renamed')
        elif how == 'head':
            new = labs[:op.get('k', 1)]
            fn = lambda: bus.head(op.get('k', 1))
        elif how == 'tail':
            new = labs[-op.get('k', 1):]
            fn = lambda: bus.tail(op.get('k', 1))
        else:
            new = list(labs)
            fn = lambda: bus[:]
        site = f'Bus.{how}'
        if how == 'sort_values':
            # sorting by a value derived from each Frame reads every Frame (observing max_persist), then derives
            specs = {l: self.expected_frame(e, l) for l in labs}

            def keyfn(series):
                return series.iter_element().apply(lambda f: (len(f.index), str(f.name)))
            new = sorted(labs, key=lambda l: (len(specs[l]['index']), l))
            return self._sel(e, op, site, new, lambda b: b.sort_values(key=keyfn))
        if how in ('head', 'tail', 'copy_sel'):
            # these select (and load) frames: same path and oracles as any other selection
            if not new:
                return 'skip'
            return self._sel(e, op, site, new, lambda b: fn())
        addressed = set()
        # derivations that do not select by loading must not load anything
        before = e.extra.get('loaded')
        stale = self._stale_kind(e)
        st, r = call(fn)
        e.extra['loaded'] = self._loaded(e, op)
        if st == 'raise':
            if stale is None:
                raise Violation('C17.same', site, self._cls(self.files[e.model['fid']], e.model['mp']), f'derivation raised {type(r).__name__}: {r}')
            return 'raise'
        for lab in addressed:
            e.model['t'][lab] = self.step_no
        self._post(e, op, site, addressed, before, None)
        d = self._new_bus(e, r, new, op.get('out'), site)
        self.stats['derived_bus'] += 1
        return 'ok'

    def do_export(self, op, dec_):
        sf = self.sf
        e = self.get(op['h'], ('bus',))
        if e is None or op['fid'] in self.files:
            return 'skip'
        bus = e.obj
        fmt = op['fmt']
        labs = e.model['labels']
        src = self.files[e.model['fid']]
        specs = [self.expected_frame(e, l) for l in labs]
        if not labs:
            return 'skip'
        if src.fmt == 'sqlite' and any(sp['idepth'] == 1 and sp['index'] and isinstance(sp['index'][0], int)
                                       and sp['index'] != sorted(sp['index']) for sp in specs):
            return 'skip'  # known finding (rows come back sorted) would propagate into the exported file
        if fmt != 'zip_pickle':
            # delimited / sqlite exports need one depth configuration per label
            cfg = self._store_config(specs, True, fmt)
            if any((not s['cols']) or (not s['index']) for s in specs):
                return 'skip'
            cform = op.get('cform', 'map')
            wcfg = None
            if cform != 'map' and all(s['idepth'] == 1 and s['cdepth'] == 1 for s in specs):
                # other legitimate forms of the same configuration: a bare StoreConfig, a map that only has a default,
                # and one that differs from the Bus's own configuration in what is written (no index column)
                lk = {'label_encoder': str, 'label_decoder': int} if self.config.get('int_labels') else {}
                if cform == 'empty_dict' and not lk:
                    # an explicitly given empty per-label map means "all defaults" for writing - not "use the Bus's own configuration"
                    wcfg = {}
                    cfg = sf.StoreConfig(index_depth=1, columns_depth=1)
                elif cform == 'empty_dict':
                    cform = 'map'
                elif cform == 'bare':
                    cfg = sf.StoreConfig(index_depth=1, columns_depth=1, **lk)
                elif cform == 'default':
                    cfg = sf.StoreConfigMap(default=sf.StoreConfig(index_depth=1, columns_depth=1, **lk))
                elif any(len(s['cols']) < 2 for s in specs):
                    # a delimited file with a single column and no index column is outside what from_delimited
                    # parses in this environment (format envelope, C16 territory; DESIGN 9)
                    cform = 'map'
                else:
                    cfg = sf.StoreConfigMap(default=sf.StoreConfig(include_index=False, index_depth=0, columns_depth=1, **lk))
                    specs = [dict(s, index=list(range(len(s['index'])))) for s in specs]
                self.stats['export-config:' + cform] += 1
            if fmt == 'sqlite' and any(s['cdepth'] == 1 and any(not isinstance(c, str) for c in s['columns']) for s in specs):
                return 'skip'
            if fmt == 'sqlite' and any(l == '' for l in labs):
                return 'skip'  # an empty table name is outside what SQLite accepts
        else:
            cfg = self._store_config(specs, False, fmt)
        wcfg_ = wcfg if fmt != 'zip_pickle' else None
        nf = SimFile(os.path.join(self.dir, f'store{op["fid"]}' + EXT[fmt]), fmt)
        nf.labels = list(labs)
        nf.cfg = cfg
        nf.cfgmap = cfg is not None and fmt != 'zip_pickle'
        nf.specs['orig'] = {s['name']: s for s in specs}
        nf.specs['alt'] = {s['name']: alt_spec(s) for s in specs}

        def fn():
            if fmt == 'zip_pickle' and cfg is None:
                bus.to_zip_pickle(nf.path)
            else:
                getattr(bus, 'to_' + fmt)(nf.path, config=(cfg if wcfg_ is None else wcfg_))
            return [], None
        if self.config.get('int_labels') and op.get('noenc') and self._stale_kind(e) is None:
            # labels that are not strings, exported without a label encoder: refused, or else the reopened store has the same labels
            plain = sf.StoreConfig(index_depth=1, columns_depth=1) if fmt != 'zip_pickle' else None
            path2 = nf.path + '.noenc' + EXT[fmt]
            st, r = call(lambda: getattr(bus, 'to_' + fmt)(path2) if plain is None else getattr(bus, 'to_' + fmt)(path2, config=plain))
            e.extra['loaded'] = self._loaded(e, op)
            if st == 'ok':
                st2, labs2 = call(lambda: list((sf.Bus.from_zip_pickle(path2) if plain is None else getattr(sf.Bus, 'from_' + fmt)(path2, config=plain)).index))
                if os.path.exists(path2):
                    os.remove(path2)
                if st2 == 'raise' or [type(x).__name__ for x in labs2] != [type(x).__name__ for x in labs] or norm_list(labs2) != norm_list(labs):
                    raise Violation('C17.faithful', f'Bus.to_{fmt}(no label encoder)', self._cls(src, e.model['mp']),
                                    f'non-string labels {labs!r} were written without a label encoder and come back as {labs2!r}')
            elif os.path.exists(path2):
                os.remove(path2)
            self.fault('export-without-label-encoder-' + ('accepted' if st == 'ok' else 'refused'))
            for lab in labs:
                e.model['t'].pop(lab, None)  # the attempt may have read any of the frames: recency unknown until addressed again
            return 'noenc-' + st
        self.tick()
        res = self._access(e, op, f'Bus.to_{fmt}', set(labs), fn)
        if self._last_raised:
            if os.path.exists(nf.path):
                os.remove(nf.path)
            return 'export-raised'
        if not os.path.exists(nf.path) or e.extra.get('loaded') is None:
            return 'no-file'
        stale = self._stale_kind(e)
        if stale is not None:
            # the export may have failed half way or been served from memory; do not follow the new file
            try:
                os.remove(nf.path)
            except OSError:
                pass
            return 'stale-export'
        with open(nf.path, 'rb') as fh:
            nf.contents['orig'] = fh.read()
        nf.cur = 'orig'
        self.files[op['fid']] = nf
        saved_cfgmap = self.config.get('cfgmap')
        self._write_file(nf, 'alt')
        self._stamp(nf)
        mp = op.get('mp')
        if mp is not None:
            mp = max(1, min(mp, len(labs)))
        self._open_bus(op['fid'], mp, op.get('out'), op)
        self.probe('export-and-reopen')
        return 'ok'

    def do_reopen(self, op, dec_):
        f = self.files.get(op['fid'])
        if f is None:
            return 'skip'
        if f.cur is None:
            return 'skip'
        mp = op.get('mp')
        if mp is not None:
            mp = max(1, min(mp, max(1, len(f.labels))))
        e = self._open_bus(op['fid'], mp, op.get('out'), op)
        return 'ok' if e is not None else 'raise'

    def do_drop_ent(self, op, dec_):
        if op['h'] in self.ents:
            del self.ents[op['h']]
            return 'ok'
        return 'skip'

    @classmethod
    def simplify(cls, config, ops):
        if config.get('alloc_cap') != 1024:
            c2 = dict(config)
            c2['alloc_cap'] = 1024
            yield c2, ops
        for i, op in enumerate(ops):
            for key in ('labels',):
                v = op.get(key)
                if isinstance(v, list) and len(v) > 1:
                    for j in range(len(v)):
                        o2 = dict(op)
                        o2[key] = v[:j] + v[j + 1:]
                        yield config, ops[:i] + [o2] + ops[i + 1:]
