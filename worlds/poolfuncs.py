'''Module-level (hence picklable) workload functions for PoolWorld. Every input maps to a distinct,
attributable result: a canonical text digest of the labels and values the function was given.'''
import functools

import numpy as np


class TaskFailure(ValueError):
    '''A standard, picklable exception raised by a task the simulator makes fail.'''


def _n(x):
    if isinstance(x, (bool, np.bool_)):
        return 'b%d' % bool(x)
    if isinstance(x, (np.datetime64,)):
        return 'M' + str(x)
    if isinstance(x, (float, np.floating)):
        x = float(x)
        if x != x:
            return 'nan'
        if x in (float('inf'), float('-inf')):
            return 'inf' if x > 0 else '-inf'
        if x == int(x):
            return str(int(x))
        return repr(x)
    if isinstance(x, (int, np.integer)):
        return str(int(x))
    if isinstance(x, (str, np.str_)):
        return 's' + str(x)
    if isinstance(x, tuple):
        return '(' + ','.join(_n(v) for v in x) + ')'
    if x is None:
        return 'None'
    return type(x).__name__ + ':' + repr(x)


def digest(v):
    import static_frame as sf
    if isinstance(v, sf.Frame):
        return 'F[' + _n(v.name) + '|' + ','.join(_n(x) for x in _labels(v.index)) + '|' + ','.join(_n(x) for x in _labels(v.columns)) + '|' + \
            ';'.join(','.join(_n(x) for x in row) for row in v.values.tolist()) + ']'
    if isinstance(v, sf.Series):
        return 'S[' + _n(v.name) + '|' + ','.join(_n(x) for x in _labels(v.index)) + '|' + ','.join(_n(x) for x in v.values.tolist()) + ']'
    if isinstance(v, np.ndarray):
        if v.ndim == 2:
            return 'A2[' + ';'.join(','.join(_n(x) for x in row) for row in v.tolist()) + ']'
        return 'A[' + ','.join(_n(x) for x in v.tolist()) + ']'
    if isinstance(v, tuple):
        # a named tuple is a named tuple on both sides of the pool boundary: the task sees the same field names
        fields = getattr(v, '_fields', None)
        return 'T' + _n(tuple(v)) + ('' if fields is None else '{' + ','.join(str(x) for x in fields) + '}')
    return 'E' + _n(v)


def _labels(ix):
    if ix.depth > 1:
        return [tuple(t) for t in ix.values.tolist()]
    return ix.values.tolist()


def f_value(v, fail_on=None):
    d = digest(v)
    if fail_on is not None and d == fail_on:
        raise TaskFailure('task failed on ' + d[:40])
    return d


def f_item_seq(k, v, fail_on=None):
    d = 'K' + _n(k if not isinstance(k, list) else tuple(k)) + '>' + digest(v)
    if fail_on is not None and d == fail_on:
        raise TaskFailure('task failed on ' + d[:40])
    return d


def f_item_pool(kv, fail_on=None):
    k, v = kv
    return f_item_seq(k, v, fail_on=fail_on)


def frame_fn(f, fail_on=None):
    '''Batch function Frame -> Frame: attributable (keeps labels, adds 1000 to numeric cells).'''
    if fail_on is not None and f.name == fail_on:
        raise TaskFailure('task failed on frame ' + str(f.name))
    return f.iloc[:, :2].rename(f.name)


def frame_fn_items(label, f, fail_on=None):
    if fail_on is not None and label == fail_on:
        raise TaskFailure('task failed on frame ' + str(label))
    return f.iloc[:1].rename((label, f.name))


def frame_to_series(f, fail_on=None):
    if fail_on is not None and f.name == fail_on:
        raise TaskFailure('task failed on frame ' + str(f.name))
    return f.iloc[0]


def frame_to_element(f, fail_on=None):
    if fail_on is not None and f.name == fail_on:
        raise TaskFailure('task failed on frame ' + str(f.name))
    return digest(f)


def frame_to_list(f, fail_on=None):
    '''A sized, unhashable result (a list of labels): delivered as one element per label.'''
    if fail_on is not None and f.name == fail_on:
        raise TaskFailure('task failed on frame ' + str(f.name))
    return [_n(x) for x in f.columns.values.tolist()] + [_n(f.name)]


def frame_mixed_dim(f, fail_on=None):
    '''A one-row frame is answered by that row (a Series), any other by the frame: results of mixed dimensionality.'''
    if fail_on is not None and f.name == fail_on:
        raise TaskFailure('task failed on frame ' + str(f.name))
    return f.iloc[0] if len(f.index) == 1 else f


def frame_to_ragged(f, fail_on=None):
    '''A nested list with rows of unequal length (unless the frame is square): one element per label, whatever its shape.'''
    if fail_on is not None and f.name == fail_on:
        raise TaskFailure('task failed on frame ' + str(f.name))
    return [[_n(x) for x in f.index.values.tolist()], [_n(x) for x in f.columns.values.tolist()] + ['end']]


# functions that build containers and touch process-global / lazily cached state (thread mode)
def build_and_probe(v, n=3):
    import static_frame as sf
    d = digest(v)
    k = (len(d) % 5) + n
    ix = sf.Index(range(k))
    pos = ix.positions
    ih = sf.IndexHierarchy.from_product(('a', 'b'), tuple(range(k)))
    s = sf.Series(range(k), index=ix)
    vals = ih.values
    return (d, len(pos), bool(pos.flags.writeable), pos.tolist() == list(range(k)), len(ih), vals.shape[0],
            int(s.values.sum()), ih.loc_to_iloc(('b', k - 1)))


def probe_shared(v, shared=None):
    '''Reads lazily cached state of a container shared by all tasks.'''
    ih, ixgo = shared
    d = digest(v)
    return (d, len(ih), ih.values.shape, tuple(ih.values_at_depth(0).tolist())[:2], len(ixgo), tuple(ixgo.values.tolist()),
            ixgo.positions.tolist() == list(range(len(ixgo))), bool(ixgo.positions.flags.writeable))


def frame_build_probe(f, n=3, shared=None):
    '''Batch task for thread mode: builds containers (allocator, caches) and reads shared lazily cached state.'''
    import static_frame as sf
    k = (len(f.index) % 4) + n
    ix = sf.Index(range(k))
    pos = ix.positions
    out = [len(pos), int(bool(pos.flags.writeable)), int(pos.tolist() == list(range(k)))]
    if shared is not None:
        ih, ixgo = shared
        out += [len(ih), ih.values.shape[0], len(ixgo), int(ixgo.positions.tolist() == list(range(len(ixgo))))]
    return sf.Series(out, name=f.name)


def frame_none_for(f, none_on=None, fail_on=None):
    '''Returns None (a legitimate result) for one frame, the frame's first column otherwise.'''
    if fail_on is not None and f.name == fail_on:
        raise TaskFailure('task failed on frame ' + str(f.name))
    if f.name == none_on:
        return None
    return f.iloc[:, 0]


def frame_grow_in_task(f, fail_on=None):
    '''Returns a grow-only frame that was grown inside the task and never read since (cold caches cross the pool boundary).'''
    if fail_on is not None and f.name == fail_on:
        raise TaskFailure('task failed on frame ' + str(f.name))
    g = f.to_frame_go()
    g['grown'] = 7
    g['grown2'] = g.index.values if False else 8
    return g


def probe_bus(v, bus=None, labels=()):
    '''Reads frames of one shared, lazily loaded Bus from inside a pool task.'''
    d = digest(v)
    lab = labels[len(d) % len(labels)]
    f = bus[lab]
    return (d, str(lab), tuple(f.shape), digest(f.iloc[0]) if f.shape[0] else '')


def probe_bus_direct(v, bus=None, labels=()):
    '''As probe_bus, but the Bus is the first thing the task touches (tasks meet inside the Bus, not before it).'''
    lab = labels[(int(v) if isinstance(v, (int, np.integer)) else sum(map(ord, str(v)))) % len(labels)]
    f = bus[lab]
    g = bus.iloc[0] if isinstance(v, (int, np.integer)) and v % 2 else bus[labels[-1]]
    return (str(v), str(lab), tuple(f.shape), str(g.name), digest(f.iloc[0]) if f.shape[0] else '')


def probe_bus_whole(v, bus=None, labels=()):
    '''Some tasks read the whole Bus (items / values), others one label: whole-Bus reads must never see a placeholder.'''
    h = int(v) if isinstance(v, (int, np.integer)) else sum(map(ord, str(v)))
    if h % 3 == 0:
        return (str(v), 'items', tuple((str(k), type(f).__name__, tuple(f.shape)) for k, f in bus.items()))
    if h % 3 == 1:
        return (str(v), 'values', tuple((type(f).__name__, tuple(f.shape)) for f in bus.values))
    lab = labels[h % len(labels)]
    f = bus[lab]
    return (str(v), str(lab), type(f).__name__, tuple(f.shape))


def probe_bus_iloc(v, bus=None, labels=()):
    '''Every access by position (and, under max_persist, the element-wise items() path): an eviction by another
    task between the cache update and the read must never hand out a placeholder.'''
    h = int(v) if isinstance(v, (int, np.integer)) else sum(map(ord, str(v)))
    n = len(labels)
    f = bus.iloc[h % n]
    g = bus.iloc[(h + 1) % n]
    out = (str(v), type(f).__name__, tuple(f.shape), type(g).__name__, tuple(g.shape))
    if h % 2:
        out += tuple((str(k), type(x).__name__, tuple(x.shape)) for k, x in bus.items())
    return out


def alloc_probe(v, sizes=(3, 9, 5)):
    '''Several containers with default (auto-integer) indices of different sizes per task: every one asks the
    process-wide positions allocator, so tasks meet inside it with requests below, between and above its capacity.'''
    import static_frame as sf
    h = int(v) if isinstance(v, (int, np.integer)) else sum(map(ord, str(v)))
    out = []
    for j in range(len(sizes)):
        k = sizes[(h + j) % len(sizes)]
        s = sf.Series(('a',) * k)
        pos = s.index.positions
        out.append((k, len(s.index), len(pos), bool(pos.flags.writeable), pos.tolist() == list(range(k)), s.index.values.tolist() == list(range(k))))
    return (str(v), tuple(out))


def sample_in_task(v, n=2, seed=3):
    '''Seeded sampling inside a task: the draw must not depend on what other threads do.'''
    import static_frame as sf
    d = digest(v)
    s = sf.Series(range(20)).sample(n + len(d) % 3, seed=seed + len(d) % 2)
    return (d, tuple(s.index.values.tolist()))
