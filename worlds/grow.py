'''GrowWorld: histories of growth calls, derivations, cache-materialising reads and failing growth
calls over a pool of aliasing grow-only containers (IndexGO family, IndexHierarchyGO, FrameGO) and
everything converted or derived from them.  Serves C02 (bijection after any history), C05 (tree /
table views and per-level selection at every reached cache state) and C09 (append-only, atomic,
isolated).  DESIGN.md 5.2-5.4.
'''
import copy
import pickle

import numpy as np

from sim.core import Violation, canon, h64
from sim.snap import norm, norm_list, snap, snap_index, snap_frame, snap_series, first_diff, arr_cells
from worlds.base import WorldBase, SimulatedFailure, enc, dec, call
from worlds.gmodel import (IxM, FrM, SeM, DATE_UNITS, GO_OF, STATIC_OF, is_go, unhashable,
                           expected_index_snap, expected_frame_snap, expected_series_snap,
                           learn_index, learn_frame, learn_series, is_tree_order)
from worlds import grow_index, grow_hier, grow_frame

STRS = list('abcdefgh')
INTS = list(range(10))


class GrowWorld(grow_index.IndexOps, grow_hier.HierOps, grow_frame.FrameOps, WorldBase):
    NAME = 'grow'

    # ------------------------------------------------------------------ configuration
    @staticmethod
    def draw_config(ch, profile, tier):
        big = tier == 'thorough'
        cfg = {
            'steps': ch.randint(3, 40 if big else 25),
            'alloc_cap': ch.choice([0, 1, 2, 4, 8, 1024]),
            'inspect': ch.choice(['all', 'touched', 'touched', 'sparse']),
            'pool_max': ch.randint(3, 8),
            'p_fault': ch.choice([0.0, 0.15, 0.3, 0.5]),
            'p_read': ch.choice([0.0, 0.2, 0.5]),
            'kinds': None,
        }
        if profile == 'C02':
            cfg['kinds'] = ch.choice([['ix'], ['ix', 'ih'], ['ih'], ['ix', 'ih', 'fr']])
        elif profile == 'C05':
            cfg['kinds'] = ['ih']
            cfg['inspect'] = ch.choice(['sparse', 'sparse', 'sparse', 'touched', 'all'])
        else:
            cfg['kinds'] = ch.choice([['fr'], ['fr', 'ix', 'ih'], ['ix', 'ih'], ['fr', 'ih'], ['fr']])
        return cfg

    @staticmethod
    def nontrivial(stats):
        return any(k.startswith('grow:') or k.startswith('fault:') for k in stats)

    # ------------------------------------------------------------------ lifecycle
    def setup(self, log):
        super().setup(log)
        import static_frame as sf
        self.sf = sf
        self._caller_arrays = []
        self._current = None

    def state_hash(self):
        parts = []
        for h in sorted(self.ents):
            e = self.ents[h]
            k = e.extra.get('mh')
            if k is None:
                k = h64(canon([e.kind, e.model.key(), e.extra.get('warm', 0)]))
                e.extra['mh'] = k
            parts.append(k)
        return h64(canon(parts))

    def touch(self, e, warm=None):
        e.extra['mh'] = None
        if warm is not None:
            e.extra['warm'] = warm

    # ------------------------------------------------------------------ generation
    def gen_op(self, ch):
        kinds = self.config['kinds']
        pool_max = self.config['pool_max']
        go_h = self.handles(lambda e: e.go)
        if not go_h or (len(self.ents) < 2 and ch.chance(0.5)):
            return self.gen_new(ch, kinds)
        menu = []
        for k in kinds:
            if k == 'ix':
                menu += [('ix_grow', 5), ('ix_derive', 2 if len(self.ents) < pool_max else 0)]
            elif k == 'ih':
                menu += [('ih_grow', 5), ('ih_derive', 2 if len(self.ents) < pool_max else 0)]
                if self.profile == 'C05':
                    menu += [('ih_query', 6), ('ih_warm', 3)]
            elif k == 'fr':
                menu += [('fr_grow', 6), ('fr_derive', 3 if len(self.ents) < pool_max else 0)]
        menu += [('check', 2 + 6 * self.config['p_read']), ('new', 1 if len(self.ents) < pool_max else 0),
                 ('drop', 0.3), ('caller_write', 1.0 if self._caller_arrays else 0)]
        what = ch.weighted(menu)
        gen = getattr(self, 'gen_' + what)
        op = gen(ch) if what != 'new' else self.gen_new(ch, kinds)
        if op is None:
            op = self.gen_check(ch)
        return op

    def gen_new(self, ch, kinds):
        k = ch.choice(kinds)
        if k == 'ix':
            return self.gen_new_ix(ch)
        if k == 'ih':
            return self.gen_new_ih(ch)
        return self.gen_new_fr(ch)

    def gen_check(self, ch):
        hs = self.handles()
        if not hs:
            return None
        return {'op': 'check', 'h': ch.choice(hs)}

    def gen_caller_write(self, ch):
        return {'op': 'caller_write', 'arr': ch.randint(0, len(self._caller_arrays) - 1), 'pos': ch.randint(0, 5)}

    def do_caller_write(self, op, dec_):
        '''The caller writes into an array it earlier passed to a growth call (a second party acting later).'''
        if not self._caller_arrays:
            return 'skip'
        a, vals = self._caller_arrays[op['arr'] % len(self._caller_arrays)]
        if not a.flags.writeable or a.size == 0:
            return 'readonly'
        pos = op.get('pos', 0) % a.size
        k = a.dtype.kind
        try:
            a.flat[pos] = (not bool(a.flat[pos])) if k == 'b' else (987654 if k in 'iu' else 987654.5 if k == 'f' else 'ZZ')
        except Exception:
            return 'failed'
        self.fault('caller-writes-to-retained-buffer')
        for h in self.handles():
            self.check_ent(self.ents[h], op)
        return 'written'

    def gen_drop(self, ch):
        hs = self.handles()
        if len(hs) < 3:
            return None
        return {'op': 'drop', 'h': ch.choice(hs)}

    def want_fault(self, ch):
        return ch.chance(self.config['p_fault'])

    # ------------------------------------------------------------------ application
    def apply(self, op, dec_):
        name = op['op']
        self.opstat(name)
        fn = getattr(self, 'do_' + name)
        self._touched = set()
        for k in ('h', 'src_h', 'other_h'):
            if k in op:
                self._touched.add(op[k])
        out = fn(op, dec_)
        if 'out' in op and op['out'] in self.ents:
            self._touched.add(op['out'])
        self.inspect(op)
        return out

    def inspect(self, op):
        mode = self.config['inspect']
        if mode == 'all':
            hs = self.handles()
        elif mode == 'touched':
            hs = [h for h in sorted(self._touched) if h in self.ents]
        else:
            hs = []
        for h in hs:
            self.check_ent(self.ents[h], op)

    def finish(self):
        for h in self.handles():
            self.check_ent(self.ents[h], {'op': 'finish'})

    def do_check(self, op, dec_):
        e = self.get(op['h'])
        if e is None:
            return 'skip'
        self.check_ent(e, op, full=True)
        return 'ok'

    def do_drop(self, op, dec_):
        if op['h'] in self.ents:
            del self.ents[op['h']]
            return 'ok'
        return 'skip'

    # ------------------------------------------------------------------ oracles common
    def site_of(self, op):
        return op.get('site') or op['op']

    def check_ent(self, e, op, full=False):
        self._current = e.h
        if e.kind == 'ix':
            self.check_ix(e, op, full)
        elif e.kind == 'ih':
            self.check_ih(e, op, full)
        elif e.kind == 'fr':
            self.check_fr(e, op, full)
        elif e.kind == 'se':
            self.check_se(e, op, full)
        e.extra['warm'] = 1
        self._current = None

    def last_growth(self, e):
        return e.extra.get('last_growth', ('none', ''))

    def blame(self, e, op):
        '''(site, cls) used in a violation signature: the most recent growth call on the object (the
        call that put it in this state) if any, otherwise the op that created it.'''
        lg = e.extra.get('last_growth')
        if lg is not None:
            return lg
        return (e.origin or self.site_of(op), '')

    # ------------------------------------------------------------------ minimisation hooks
    @classmethod
    def simplify(cls, config, ops):
        # configuration: fewer moving parts first
        for k, v in (('alloc_cap', 1024), ('inspect', 'touched')):
            if config.get(k) != v:
                c2 = dict(config)
                c2[k] = v
                yield c2, ops
        # drop 'check' and 'drop' ops one by one is done by ddmin; here: shorten label lists
        for i, op in enumerate(ops):
            for key in ('labels', 'items'):
                v = op.get(key)
                if isinstance(v, list) and len(v) > 1:
                    for j in range(len(v)):
                        o2 = dict(op)
                        o2[key] = v[:j] + v[j + 1:]
                        yield config, ops[:i] + [o2] + ops[i + 1:]
