'''QuiltWorld: Quilt programs over a lazily loaded, LRU-bounded, store-backed Bus, interleaved with direct
accesses to that Bus (which perturb the LRU state the Quilt depends on) and with file events.
Every Quilt result is compared with the same operation on a reference table built from the literals
with plain Python lists.  Serves C19 (Quilt part).  DESIGN.md 5.7.
'''
import os
import shutil
import tempfile

import numpy as np

from sim.core import Violation, canon, h64
from sim.snap import norm, norm_list, first_diff
from worlds.base import WorldBase, call

ROWL = ['p', 'q', 'r', 's', 't', 'u', 'v', 'w', 'x', 'y', 'z', 'k']
COLL = ['A', 'B', 'C', 'D', 'E', 'F', 'G', 'H', 'I', 'J', 'K', 'L']
BASE_NS = 1_700_000_000 * 10 ** 9


def kind_of(v):
    if isinstance(v, bool):
        return 'b'
    if isinstance(v, int):
        return 'i'
    if isinstance(v, float):
        return 'f'
    return 'U'


def gen_members(ch, n, axis, retain, dates=False):
    '''n frames aligned on the opposite axis. Returns list of specs {name, index, columns, rows}.'''
    shared_n = ch.randint(1, 4)
    shared = (COLL if axis == 0 else ROWL)[:shared_n]
    kinds = [ch.choice(['int', 'float', 'str', 'bool', 'int']) for _ in range(shared_n)]
    mixed = ch.chance(0.2)
    names = ch.shuffled(['m%d' % i for i in range(n)]) if ch.chance(0.5) else ['m%d' % i for i in range(n)]  # Bus order need not be sorted order
    if ch.chance(0.15):
        names = list(range(n))  # integer Bus labels, including the falsy 0
    out = []
    used = 0
    for m in range(n):
        k = ch.randint(1, 4)
        if retain and ch.chance(0.5):
            own = (ROWL if axis == 0 else COLL)[:k]  # repeated inner labels under different outer labels
        else:
            own = (ROWL if axis == 0 else COLL)[used:used + k]
            used += k
        if len(own) < k:
            own = own + ['m%d_%d' % (m, i) for i in range(k - len(own))]
        if dates:
            # date labels along the Quilt axis (one month per member; with retained labels sometimes the same days again)
            month = 1 if (retain and own and own[0] == (ROWL if axis == 0 else COLL)[0]) else m + 1
            own = ['2021-%02d-%02d' % (month, i + 1) for i in range(k)]
        nr, nc = (k, shared_n) if axis == 0 else (shared_n, k)
        mkinds = [ch.choice(['int', 'float', 'str', 'bool', 'int']) for _ in range(nc)]  # one kind per column
        rows = []
        for i in range(nr):
            row = []
            for j in range(nc):
                kd = kinds[j] if axis == 0 else mkinds[j]
                if mixed and m % 2:
                    kd = {'int': 'float', 'float': 'int'}.get(kd, kd)
                base = 1000 * m + 10 * i + j
                row.append(base if kd == 'int' else base + 0.5 if kd == 'float' else 's%d' % base if kd == 'str' else base % 2 == 0)
            rows.append(row)
        out.append({'name': names[m], 'index': own if axis == 0 else shared, 'columns': shared if axis == 0 else own, 'rows': rows})
    return out


def alt_member(spec):
    out = dict(spec)
    rows = []
    for r in spec['rows']:
        n = []
        for v in r:
            if isinstance(v, bool):
                n.append(not v)
            elif isinstance(v, (int, float)):
                n.append(v + 500000)
            else:
                n.append(v + 'Z')
        rows.append(n)
    out['rows'] = rows
    return out


class Ref:
    '''The reference table: labels and cells as plain lists.'''

    def __init__(self, members, axis, retain):
        self.axis = axis
        self.retain = retain
        self.index = []
        self.columns = []
        self.rows = []
        self.owner = []  # member index per position along the quilt axis
        if axis == 0:
            self.columns = list(members[0]['columns'])
            for mi, m in enumerate(members):
                for lab, row in zip(m['index'], m['rows']):
                    self.index.append((m['name'], lab) if retain else lab)
                    self.rows.append(list(row))
                    self.owner.append(mi)
        else:
            self.index = list(members[0]['index'])
            self.rows = [[] for _ in self.index]
            for mi, m in enumerate(members):
                for j, lab in enumerate(m['columns']):
                    self.columns.append((m['name'], lab) if retain else lab)
                    self.owner.append(mi)
                    for i in range(len(self.index)):
                        self.rows[i].append(m['rows'][i][j])

    @property
    def shape(self):
        return (len(self.index), len(self.columns))

    def col_kind(self, j):
        ks = {kind_of(self.rows[i][j]) for i in range(len(self.index))}
        return ks.pop() if len(ks) == 1 else None


def resolve(key, n):
    '''positions selected by a key spec along an axis of length n, plus whether it reduces the axis.'''
    if key is None or 'all' in key:
        return list(range(n)), False
    if 'i' in key:
        i = key['i']
        if not (-n <= i < n):
            return None, True
        return [i % n], True
    if 's' in key:
        return list(range(n))[slice(*key['s'])], False
    if 'l' in key:
        if any(not (0 <= i < n) for i in key['l']):
            return None, False
        return list(key['l']), False
    if 'b' in key:
        if len(key['b']) != n:
            return None, False
        return [i for i, k in enumerate(key['b']) if k], False
    return None, False


def observed(sf, r):
    '''Normalised view of a Quilt result.'''
    if isinstance(r, sf.Frame):
        def labs(ix):
            if ix.depth > 1:
                return [tuple(norm(x) for x in t) for t in ix.values.tolist()] if len(ix) else []
            return norm_list(ix.values.tolist())
        cols = [a for a in r.iter_array(axis=0)]
        rows = [[norm(c.tolist()[i]) for c in cols] for i in range(r.shape[0])]
        return {'t': 'frame', 'index': labs(r.index), 'columns': labs(r.columns), 'rows': rows,
                'kinds': [c.dtype.kind if r.shape[0] else None for c in cols]}
    if isinstance(r, sf.Series):
        ix = r.index
        if ix.depth > 1:
            labs = [tuple(norm(x) for x in t) for t in ix.values.tolist()] if len(ix) else []
        else:
            labs = norm_list(ix.values.tolist())
        return {'t': 'series', 'index': labs, 'cells': norm_list(r.values.tolist()), 'name': norm(r.name)}
    if isinstance(r, np.ndarray):
        return {'t': 'array', 'cells': [norm_list(x) for x in r.tolist()] if r.ndim == 2 else norm_list(r.tolist())}
    if isinstance(r, tuple):
        return {'t': 'tuple', 'cells': norm_list(list(r))}
    return {'t': 'element', 'v': norm(r)}


def _window_sig(w):
    return type(w).__name__ + 'x'.join(str(k) for k in w.shape)


def _apply_len(*a):
    return len(a[-1]) + 7


def nlab(x):
    return tuple(norm(v) for v in x) if isinstance(x, tuple) else norm(x)


class QuiltWorld(WorldBase):
    NAME = 'quilt'

    @staticmethod
    def draw_config(ch, profile, tier):
        n = ch.randint(1, 4)
        axis = ch.randint(0, 1)
        retain = ch.chance(0.5)
        mp = ch.choice([None, 1, 1, 2, n])
        if mp is not None:
            mp = max(1, min(mp, n))
        dates = ch.chance(0.15)
        members = gen_members(ch, n, axis, retain, dates)
        backing = ch.weighted([('zip_pickle', 7), ('memory', 2)])
        if not isinstance(members[0]['name'], str):
            backing = 'memory'  # stores need string labels (or an encoder); integer labels live in an in-memory Bus
        return {
            'steps': ch.randint(3, 30 if tier == 'thorough' else 22),
            'axis': axis, 'retain': retain, 'deepcopy': ch.chance(0.3), 'mp': mp, 'date_axis': dates,
            'members': members,
            'backing': backing,
            'faults': ch.chance(0.3), 'alloc_cap': ch.choice([2, 1024]),
        }

    @staticmethod
    def nontrivial(stats):
        return any(k.startswith(('probe:', 'fault:')) for k in stats) or stats.get('op:q_iloc', 0) + stats.get('op:q_loc', 0) > 0

    # ------------------------------------------------------------------ lifecycle
    def setup(self, log):
        super().setup(log)
        import static_frame as sf
        from static_frame.core.exception import StoreFileMutation
        self.sf = sf
        self.StoreFileMutation = StoreFileMutation
        cfg = self.config
        self.axis = cfg['axis']
        self.retain = cfg['retain']
        self.members = cfg['members']
        self.date_axis = bool(cfg.get('date_axis'))
        if self.date_axis:
            key = 'index' if self.axis == 0 else 'columns'
            self.members = [dict(m, **{key: [np.datetime64(x, 'D') for x in m[key]]}) for m in self.members]
        self.ref = Ref(self.members, self.axis, self.retain)
        self.dir = tempfile.mkdtemp(prefix='sfq_', dir='/dev/shm' if os.path.isdir('/dev/shm') else None)
        self.clock = 0
        self.stale = False
        self.path = os.path.join(self.dir, 'q.zip')
        self.contents = {}
        for tag, specs in ((('orig', self.members), ('alt', [alt_member(m) for m in self.members])) if cfg['backing'] != 'memory' else ()):
            frames = [self._frame(s) for s in specs]
            tmp = os.path.join(self.dir, tag + '.zip')
            sf.Bus.from_frames(frames).to_zip_pickle(tmp)
            with open(tmp, 'rb') as fh:
                self.contents[tag] = fh.read()
            os.remove(tmp)
        self.cur = 'orig'
        if cfg['backing'] != 'memory':
            self._put('orig', BASE_NS)
        self.mtime0 = BASE_NS
        if cfg['backing'] == 'memory':
            self.bus = sf.Bus.from_frames([self._frame(s) for s in self.members])
            self.mp = None
        else:
            self.bus = sf.Bus.from_zip_pickle(self.path, max_persist=cfg['mp'])
            self.mp = cfg['mp']
        self.quilts = []
        self._new_quilt(self.bus, cfg['deepcopy'], 'Quilt.__init__')

    def _frame(self, spec):
        sf = self.sf
        cols = [[r[j] for r in spec['rows']] for j in range(len(spec['columns']))]
        if self.date_axis and self.axis == 0:
            return sf.Frame.from_items(zip(spec['columns'], cols), index=sf.IndexDate(spec['index']), name=spec['name'])
        if self.date_axis:
            return sf.Frame.from_items(zip(spec['columns'], cols), index=sf.Index(spec['index']), name=spec['name'], columns_constructor=sf.IndexDate)
        return sf.Frame.from_items(zip(spec['columns'], cols), index=sf.Index(spec['index']), name=spec['name'])

    def _ref_frame(self):
        '''The single Frame the statement compares a Quilt with: the members concatenated along the axis (labels retained as the outer level or not).'''
        sf = self.sf
        frames = [self._frame(s) for s in self.members]
        if self.retain:
            return sf.Frame.from_concat_items([(f.name, f) for f in frames], axis=self.axis)
        return sf.Frame.from_concat(frames, axis=self.axis)

    def _put(self, tag, ns):
        with open(self.path, 'wb') as fh:
            fh.write(self.contents[tag])
        os.utime(self.path, ns=(ns, ns))
        self.cur = tag
        self.mtime = ns

    def teardown(self):
        shutil.rmtree(self.dir, ignore_errors=True)

    def state_hash(self):
        st, loaded = call(lambda: tuple(bool(x) for x in self.bus.status['loaded'].values.tolist()))
        return h64(canon([loaded if st == 'ok' else 'err', self.cur, self.stale, len(self.quilts),
                          [bool(getattr(q, '_assign_axis', None)) for q, _ in self.quilts]]))

    def _new_quilt(self, bus, deepcopy, site):
        sf = self.sf
        st, q = call(lambda: sf.Quilt(bus, axis=self.axis, retain_labels=self.retain, deepcopy_from_bus=deepcopy))
        if st == 'raise':
            raise Violation('C19.quilt', site, self._cls(), f'Quilt construction raised {type(q).__name__}: {q}')
        self.quilts.append((q, bus))

    def _cls(self):
        mp = self.mp
        return f"axis={self.axis},retain={int(self.retain)}," + ('mp=None' if mp is None else 'mp=1' if mp == 1 else 'mp>1')

    # ------------------------------------------------------------------ generation
    def _key(self, ch, n, allow_reduce=True, hier=False):
        kinds = [('all', 2), ('i', 3 if allow_reduce else 0), ('s', 4), ('l', 3), ('b', 1)]
        k = ch.weighted(kinds)
        if n == 0:
            return {'all': 1}
        if k == 'all':
            return {'all': 1}
        if k == 'i':
            return {'i': ch.randint(-n, n - 1)}
        if k == 's':
            a = ch.randint(0, n - 1)
            b = ch.randint(a + 1, n)
            if ch.chance(0.3):
                return {'s': [a, b, ch.randint(2, 3)]}
            if ch.chance(0.04):
                return {'s': [a, a]}  # selects nothing (a key spanning zero members)
            if ch.chance(0.04) and not hier:
                return {'s': [b - 1, a - 1 if a > 0 else None, -1]}  # reversed
            return {'s': [a, b]}
        if k == 'l':
            sel = ch.sample(range(n), ch.randint(1, n))
            # on a hierarchical axis only index-ordered selections are tree-form; elsewhere mostly ordered too
            # (out-of-order lists on the Quilt axis are a known finding and would otherwise dominate the runs)
            return {'l': sorted(sel) if (hier or ch.chance(0.85)) else sel}
        m = [ch.chance(0.5) for _ in range(n)]
        if not any(m):
            m[ch.randint(0, n - 1)] = True
        return {'b': m}

    def gen_op(self, ch):
        nr, nc = self.ref.shape
        qi = ch.randint(0, len(self.quilts) - 1)
        if self.config['faults'] and self.config['backing'] != 'memory' and ch.chance(0.08):
            return {'op': 'fs', 'ev': ch.choice(['rewrite_other', 'restore', 'restore', 'touch', 'delete']), 'dt': ch.randint(1, 50)}
        what = ch.weighted([('q_attr', 3), ('q_iloc', 7), ('q_loc', 6), ('q_getitem', 2), ('q_iter', 3), ('q_window', 1.5),
                            ('q_headtail', 1), ('q_whole', 2), ('bus_access', 5), ('new_quilt', 1), ('q_hloc', 3 if self.retain else 0),
                            ('q_export', 0.6)])
        op = {'op': what, 'q': qi}
        if what == 'new_quilt':
            op['how'] = ch.choice(['ctor', 'ctor', 'rename'])
        if what == 'q_attr':
            op['what'] = ch.choice(['shape', 'size', 'ndim', 'index', 'columns', 'keys', 'contains', 'status', 'repr', 'len_iter', 'nbytes', 'get', 'axis_classes', 'len'])
            op['j'] = ch.randint(0, max(0, nc - 1))
        elif what in ('q_iloc', 'q_loc'):
            op['r'] = self._key(ch, nr, hier=self.retain and self.axis == 0)
            op['c'] = self._key(ch, nc, hier=self.retain and self.axis == 1)
            if what == 'q_iloc' and ch.chance(0.2):
                op['c'] = None  # single-axis key
            if what == 'q_iloc' and ch.chance(0.3):
                for kk in ('r', 'c'):
                    if op.get(kk) and ('i' in op[kk] or 'l' in op[kk]):
                        op[kk] = dict(op[kk], np=1)
            if what == 'q_loc' and self.date_axis:
                op['strkeys'] = ch.choice(['no', 'iso', 'iso', 'month'])
        elif what == 'q_getitem':
            op['c'] = self._key(ch, nc, hier=self.retain and self.axis == 1)
        elif what == 'q_iter':
            op['kind'] = ch.choice(['array', 'series', 'tuple'])
            op['items'] = ch.chance(0.5)
            op['apply'] = ch.chance(0.3)
        elif what == 'q_export':
            op['fmt'] = ch.choice(['zip_pickle', 'zip_pickle', 'zip_csv', 'zip_tsv', 'sqlite'])
        elif what == 'q_window':
            op['size'] = ch.randint(1, 3)
            op['kind'] = ch.choice(['frame', 'array'])
            op['items'] = ch.chance(0.5)
            op['wapply'] = ch.chance(0.25)
            if ch.chance(0.35):
                # the other window options: which windows exist and how they are labelled depends on them
                op['opts'] = {'label_shift': ch.choice([0, 1, -1, -3]), 'step': ch.choice([1, 2]), 'start_shift': ch.choice([0, 1, -1]),
                              'window_sized': ch.chance(0.7)}
        elif what == 'q_headtail':
            op['which'] = ch.choice(['head', 'tail'])
            op['k'] = ch.randint(1, 4)
        elif what == 'q_whole':
            op['what'] = ch.choice(['values', 'to_frame', 'items'])
        elif what == 'q_hloc':
            m = ch.randint(0, len(self.members) - 1)
            op['m'] = m
            inner = self.members[m]['index'] if self.axis == 0 else self.members[m]['columns']
            op['form'] = ch.choice(['outer', 'outer_inner', 'all_inner', 'outer_list'])
            x = ch.choice(inner)
            op['inner'] = str(x) if isinstance(x, np.datetime64) else x  # JSON-stable: decoded again in do_q_hloc
            op['ms'] = ch.sample(range(len(self.members)), ch.randint(1, len(self.members)))
        elif what == 'bus_access':
            n = len(self.members)
            op['how'] = ch.choice(['one', 'list', 'iloc', 'items_partial'])
            op['ms'] = ch.sample(range(n), ch.randint(1, n))
        elif what == 'new_quilt':
            op['deepcopy'] = ch.chance(0.3)
        return op

    # ------------------------------------------------------------------ application
    def apply(self, op, dec_):
        self.opstat(op['op'])
        if op['op'] == 'fs':
            return self.do_fs(op)
        if op['op'] == 'bus_access':
            return self.do_bus_access(op)
        if op['op'] == 'new_quilt':
            if len(self.quilts) >= 3:
                return 'skip'
            if op.get('how') == 'rename' and self.quilts:
                # a Quilt derived from another one (handed its axis map): a fresh object whose first use may be anything
                q0, bus0 = self.quilts[op.get('q', 0) % len(self.quilts)]
                st, q1 = call(lambda: q0.rename('renamed'))
                if st == 'raise':
                    raise Violation('C19.quilt', 'Quilt.rename', self._cls(), f'raised {type(q1).__name__}: {q1}')
                self.quilts.append((q1, bus0))
                return 'ok'
            self._new_quilt(self.bus, op.get('deepcopy', False), 'Quilt.__init__')
            return 'ok'
        qi = op.get('q', 0)
        if qi >= len(self.quilts):
            return 'skip'
        q, bus = self.quilts[qi]
        fn = getattr(self, 'do_' + op['op'])
        cold = bool(getattr(q, '_assign_axis', False))
        site, exp, thunk = fn(q, op)
        if thunk is None:
            return 'skip'
        self._icls = None
        if op['op'] in ('q_iloc', 'q_loc', 'q_getitem'):
            k = op.get('r') if self.axis == 0 else op.get('c')
            if k and 'l' in k and k['l'] != sorted(k['l']):
                site, self._icls = 'Quilt.selection', 'list-key-not-in-index-order-on-quilt-axis'
            elif k and 's' in k and len(k['s']) > 2 and k['s'][2] is not None and k['s'][2] < 0:
                site, self._icls = 'Quilt.selection', 'negative-step-slice-on-quilt-axis'
            elif k and 's' in k and len(k['s']) >= 2 and k['s'][0] == k['s'][1]:
                site, self._icls = 'Quilt.selection', 'empty-selection-on-quilt-axis'
        if op['op'] == 'q_window' and op.get('opts'):
            # the window loop may visit positions before the first or after the last label (always once, and with a negative
            # start_shift repeatedly); such a window is a key selecting nothing along the Quilt axis (known finding).
            # Exactly those cases are attributed to it.
            o = op['opts']
            n_ax = self.ref.shape[0] if self.axis == 0 else self.ref.shape[1]
            ss = o.get('start_shift', 0)
            left, step_, size_ = ss, max(1, o.get('step', 1)), op.get('size', 1)
            left_max = (n_ax if ss >= 0 else n_ax + abs(ss)) - 1
            while True:
                if left >= n_ax or left + size_ - 1 < 0:
                    site, self._icls = 'Quilt.selection', 'empty-selection-on-quilt-axis'
                    break
                left += step_
                if left > left_max:
                    break
        st, r = call(thunk)
        out = self._judge(site, op, exp, st, r, bus is self.bus)
        if cold:
            self.probe('operation-on-quilt-with-unresolved-axis-map')
        self._bound(site)
        return out

    def _bound(self, site):
        if self.mp is None:
            return
        st, loaded = call(lambda: [bool(x) for x in self.bus.status['loaded'].values.tolist()])
        if st == 'ok' and sum(loaded) > self.mp:
            raise Violation('C19.bound', site, self._cls(), f'{sum(loaded)} frames loaded on the underlying Bus, max_persist={self.mp}')
        if st == 'ok' and self.mp is not None and sum(loaded) == self.mp and len(loaded) > self.mp:
            self.probe('quilt-drove-bus-at-its-max_persist-limit')

    def _judge(self, site, op, exp, st, r, on_main_bus):
        cls = self._icls or self._cls()
        stale = self.stale and on_main_bus and self.config['backing'] != 'memory'
        if st == 'raise':
            if isinstance(r, Violation):
                raise r
            if stale and isinstance(r, self.StoreFileMutation):
                self.fault('stale-read-raised')
                return 'stale-raise'
            if stale:
                return 'stale-raise-other:' + type(r).__name__
            if exp == 'may-raise':
                return 'raise:' + type(r).__name__
            raise Violation('C19.quilt', site, cls, f'raised {type(r).__name__}: {r}')
        if exp == 'may-raise' or exp is None:
            return 'ok-unchecked'
        st2, got = call(observed, self.sf, r)
        if st2 == 'raise':
            raise Violation('C19.quilt', site, cls, f'result unreadable: {type(got).__name__}: {got}')
        kinds = got.pop('kinds', None)
        ekinds = exp.pop('kinds', None) if isinstance(exp, dict) else None
        if got != exp:
            def has_alt(x):
                if isinstance(x, dict):
                    return any(has_alt(v) for v in x.values())
                if isinstance(x, (list, tuple)):
                    return any(has_alt(v) for v in x)
                if isinstance(x, bool):
                    return False
                if isinstance(x, (int, float)):
                    return x >= 400000
                return isinstance(x, str) and x.endswith('Z') and x.startswith('s')
            if stale and has_alt(got):
                raise Violation('C19.stale', site, cls, 'after the backing file was replaced a Quilt operation returned data that differs from the Bus contents: ' + first_diff(exp, got))
            raise Violation('C19.quilt', site, cls, first_diff(exp, got))
        if kinds is not None and ekinds is not None:
            for j, (a, b) in enumerate(zip(kinds, ekinds)):
                if a is not None and b is not None and a != b and not (b == 'U' and a in 'UO'):
                    raise Violation('C19.quilt', site, cls, f'column {j} dtype kind {a!r} != {b!r}')
        if stale:
            self.probe('served-from-memory-while-stale')
        return 'ok'

    # -- expectation builders
    def _exp_sel(self, rk, ck):
        ref = self.ref
        nr, nc = ref.shape
        rows, rred = resolve(rk, nr)
        cols, cred = resolve(ck, nc)
        if rows is None or cols is None:
            return 'may-raise'
        if rred and cred:
            return {'t': 'element', 'v': norm(ref.rows[rows[0]][cols[0]])}
        if rred:
            return {'t': 'series', 'index': [nlab(ref.columns[j]) for j in cols], 'cells': [norm(ref.rows[rows[0]][j]) for j in cols],
                    'name': nlab(ref.index[rows[0]])}
        if cred:
            return {'t': 'series', 'index': [nlab(ref.index[i]) for i in rows], 'cells': [norm(ref.rows[i][cols[0]]) for i in rows],
                    'name': nlab(ref.columns[cols[0]])}
        return {'t': 'frame', 'index': [nlab(ref.index[i]) for i in rows], 'columns': [nlab(ref.columns[j]) for j in cols],
                'rows': [[norm(ref.rows[i][j]) for j in cols] for i in rows],
                'kinds': [ref.col_kind(j) if rows else None for j in cols] if len(rows) == nr else None}

    def _ikey(self, key):
        if key is None or 'all' in key:
            return slice(None)
        if 'i' in key:
            return np.int64(key['i']) if key.get('np') else key['i']  # positions as they come out of np.arange / argmax
        if 's' in key:
            return slice(*key['s'])
        if 'l' in key:
            return np.array(key['l'], dtype=np.int64) if (key.get('np') and key['l']) else list(key['l'])
        return np.array(key['b'], dtype=bool)

    def _lkey(self, key, labels):
        n = len(labels)
        if key is None or 'all' in key:
            return slice(None)
        if 'i' in key:
            if not (-n <= key['i'] < n):
                return None
            return labels[key['i']]
        if 's' in key:
            a, b = key['s'][:2]
            if b is None or (len(key['s']) > 2 and key['s'][2] is not None and key['s'][2] < 0) or a == b:
                return None  # reversed / empty label slices are only driven through iloc
            sel = labels[a:b]
            if not sel:
                return None
            if len(key['s']) > 2:
                return slice(sel[0], sel[-1], key['s'][2])
            return slice(sel[0], sel[-1])
        if 'l' in key:
            if any(not (0 <= i < n) for i in key['l']):
                return None
            return [labels[i] for i in key['l']]
        if len(key['b']) != n:
            return None
        return np.array(key['b'], dtype=bool)

    # -- quilt ops: each returns (site, expectation, thunk)
    def do_q_attr(self, q, op):
        ref = self.ref
        w = op['what']
        nr, nc = ref.shape
        site = f'Quilt.{w}'
        if w == 'shape':
            return site, {'t': 'tuple', 'cells': [nr, nc]}, lambda: tuple(q.shape)
        if w == 'size':
            return site, {'t': 'element', 'v': nr * nc}, lambda: q.size
        if w == 'ndim':
            return site, {'t': 'element', 'v': 2}, lambda: q.ndim
        if w == 'len':
            return site, {'t': 'element', 'v': nr}, lambda: len(q)
        if w == 'index':
            return site, {'t': 'tuple', 'cells': [nlab(x) for x in ref.index]}, lambda: tuple(tuple(x) if isinstance(x, (tuple, np.ndarray)) else x for x in q.index)
        if w in ('columns', 'keys', 'len_iter'):
            f = {'columns': lambda: q.columns, 'keys': lambda: q.keys(), 'len_iter': lambda: list(q)}[w]
            return site, {'t': 'tuple', 'cells': [nlab(x) for x in ref.columns]}, lambda: tuple(tuple(x) if isinstance(x, (tuple, np.ndarray)) else x for x in f())
        if w == 'contains':
            if not nc:
                return site, None, None
            lab = ref.columns[op['j'] % nc]
            absent = np.datetime64('1999-01-01') if (self.date_axis and self.axis == 1 and not self.retain) else 'absent-label'  # a date index parses string keys
            return site, {'t': 'tuple', 'cells': [('b', True), ('b', False)]}, lambda: (lab in q, absent in q)
        if w == 'get':
            if not nc:
                return site, None, None
            j = op['j'] % nc
            lab = ref.columns[j]
            return site, self._exp_sel({'all': 1}, {'i': j}), lambda: q.get(lab)
        if w == 'axis_classes':
            # the class of the labels along the Quilt axis (typed labels such as dates keep their type), on the Quilt and on what it returns
            inner = 'IndexDate' if self.date_axis else 'Index'
            want = ['Index', inner] if self.retain else [inner]

            def classes(ix):
                if ix.depth > 1:
                    return [c.__name__.replace('GO', '') for c in ix.index_types.values.tolist()]
                return [type(ix).__name__.replace('GO', '')]

            def thunk_classes():
                ax = (lambda x: x.index) if self.axis == 0 else (lambda x: x.columns)
                part = q.iloc[0:2] if self.axis == 0 else q.iloc[:, 0:2]
                return tuple(tuple(classes(ax(x))) for x in (q, q.to_frame(), part))
            return site, {'t': 'tuple', 'cells': norm_list([tuple(want)] * 3)}, thunk_classes
        if w == 'status':
            return site, None, lambda: q.status
        if w == 'nbytes':
            return site, None, lambda: q.nbytes
        return site, None, lambda: repr(q)

    def do_q_iloc(self, q, op):
        rk, ck = op.get('r'), op.get('c')
        exp = self._exp_sel(rk, ck)
        if ck is None:
            return 'Quilt.iloc[rows]', exp, lambda: q.iloc[self._ikey(rk)]
        return 'Quilt.iloc[rows,cols]', exp, lambda: q.iloc[self._ikey(rk), self._ikey(ck)]

    def do_q_loc(self, q, op):
        ref = self.ref
        rk, ck = op.get('r'), op.get('c')
        lr = self._lkey(rk, ref.index)
        lc = self._lkey(ck, ref.columns)
        if lr is None or lc is None:
            return 'Quilt.loc', None, None
        exp = self._exp_sel(rk, ck)
        sf = self.sf
        sk = op.get('strkeys', 'no')
        if self.date_axis and sk != 'no':
            # dates given as strings (whole or, for a single label, just its month): what an IndexDate accepts on the single Frame
            def as_str(x):
                if isinstance(x, tuple):
                    return tuple(as_str(v) for v in x)
                return str(x) if isinstance(x, np.datetime64) else x
            ak = rk if self.axis == 0 else ck
            labels = ref.index if self.axis == 0 else ref.columns
            if sk == 'month' and ak and 'i' in ak and not self.retain and -len(labels) <= ak['i'] < len(labels):
                lab = labels[ak['i']]
                month = str(lab)[:7]
                pos = [i for i, x in enumerate(labels) if str(x)[:7] == month]
                if self.axis == 0:
                    lr, exp = month, self._exp_sel({'l': pos}, ck)
                else:
                    lc, exp = month, self._exp_sel(rk, {'l': pos})
            elif self.axis == 0:
                lr = slice(as_str(lr.start), as_str(lr.stop), lr.step) if isinstance(lr, slice) else [as_str(x) for x in lr] if isinstance(lr, list) else as_str(lr)
            else:
                lc = slice(as_str(lc.start), as_str(lc.stop), lc.step) if isinstance(lc, slice) else [as_str(x) for x in lc] if isinstance(lc, list) else as_str(lc)
            self.probe('date-labels-selected-by-string')
        # a bare tuple label on a hierarchical axis must be wrapped so that it is not read as (rows, cols)
        if isinstance(lr, tuple):
            lr = sf.HLoc[lr]
        if isinstance(lc, tuple):
            lc = sf.HLoc[lc]
        return 'Quilt.loc[rows,cols]', exp, lambda: q.loc[lr, lc]

    def do_q_getitem(self, q, op):
        ref = self.ref
        ck = op.get('c')
        lc = self._lkey(ck, ref.columns)
        if lc is None:
            return 'Quilt.__getitem__', None, None
        if isinstance(lc, tuple):
            lc = self.sf.HLoc[lc]
        if isinstance(lc, np.ndarray) and lc.dtype == bool:
            return 'Quilt.__getitem__', None, None
        return 'Quilt.__getitem__', self._exp_sel({'all': 1}, ck), lambda: q[lc]

    def do_q_hloc(self, q, op):
        '''Selections through the retained outer (Bus label) level: whole members, one member's row/column, one inner label everywhere.'''
        sf = self.sf
        ref = self.ref
        labels = ref.index if self.axis == 0 else ref.columns
        m = op['m'] % len(self.members)
        name = self.members[m]['name']
        inner = op['inner']
        if self.date_axis and isinstance(inner, str):
            inner = np.datetime64(inner, 'D')  # the op records dates as text (the replay file is JSON)
        form = op['form']
        if form == 'outer':
            pos = [i for i, l in enumerate(labels) if l[0] == name]
            key = sf.HLoc[name]
        elif form == 'outer_inner':
            pos = [i for i, l in enumerate(labels) if l == (name, inner)]
            key = sf.HLoc[name, inner]
            if len(pos) != 1:
                return 'Quilt.loc[HLoc]', None, None
        elif form == 'all_inner':
            pos = [i for i, l in enumerate(labels) if l[1] == inner]
            key = sf.HLoc[:, inner]
        else:
            names = [self.members[i % len(self.members)]['name'] for i in op['ms']]
            pos = [i for nm in names for i, l in enumerate(labels) if l[0] == nm]
            key = sf.HLoc[names]
        if not pos:
            return 'Quilt.loc[HLoc]', None, None
        sel = {'i': pos[0]} if form == 'outer_inner' else {'l': pos}
        site = f'Quilt.loc[HLoc:{form}]'
        if self.axis == 0:
            return site, self._exp_sel(sel, {'all': 1}), lambda: q.loc[key]
        return site, self._exp_sel({'all': 1}, sel), lambda: q.loc[:, key]

    def do_q_iter(self, q, op):
        ref = self.ref
        kind, items = op['kind'], op.get('items')
        ax = 1 if self.axis == 0 else 0   # a Quilt iterates along its own axis only
        nr, nc = ref.shape
        if ax == 1:
            labels = [nlab(x) for x in ref.index]
            vecs = [[norm(v) for v in ref.rows[i]] for i in range(nr)]
            other = [nlab(x) for x in ref.columns]
        else:
            labels = [nlab(x) for x in ref.columns]
            vecs = [[norm(ref.rows[i][j]) for i in range(nr)] for j in range(nc)]
            other = [nlab(x) for x in ref.index]
        site = f'Quilt.iter_{kind}{"_items" if items else ""}'
        sf = self.sf

        def one(x):
            if isinstance(x, sf.Series):
                o = observed(sf, x)
                return ('S', tuple(o['index']), tuple(o['cells']), o['name'])
            if isinstance(x, np.ndarray):
                return ('A', tuple(norm_list(x.tolist())))
            return ('T', tuple(norm_list(list(x))))

        def thunk():
            if kind == 'array':
                node = (q.iter_array_items if items else q.iter_array)(axis=ax)
            elif kind == 'series':
                node = (q.iter_series_items if items else q.iter_series)(axis=ax)
            else:
                node = (q.iter_tuple_items if items else q.iter_tuple)(axis=ax, constructor=tuple)
            out = []
            for x in node:
                if items:
                    k, v = x
                    out.append((nlab(tuple(k) if isinstance(k, (tuple, np.ndarray, list)) else k), one(v)))
                else:
                    out.append(one(x))
            return tuple(out)
        if op.get('apply'):
            # function application over the iterator: one result per label, labelled like the axis iterated over
            depth = 2 if self.retain else 1  # iteration runs along the Quilt's own axis

            def thunk_apply():
                if kind == 'array':
                    node = (q.iter_array_items if items else q.iter_array)(axis=ax)
                elif kind == 'series':
                    node = (q.iter_series_items if items else q.iter_series)(axis=ax)
                else:
                    node = (q.iter_tuple_items if items else q.iter_tuple)(axis=ax, constructor=tuple)
                r = node.apply(_apply_len)
                o = observed(sf, r)
                return (tuple(o['index']), tuple(o['cells']), r.index.depth)
            return site + '.apply', {'t': 'tuple', 'cells': norm_list([tuple(labels), tuple(len(v) + 7 for v in vecs), depth])}, thunk_apply
        exp = []
        for lab, vec in zip(labels, vecs):
            if kind == 'array':
                e = ('A', tuple(vec))
            elif kind == 'series':
                e = ('S', tuple(other), tuple(vec), lab)
            else:
                e = ('T', tuple(vec))
            exp.append((lab, e) if items else e)
        return site, {'t': 'tuple', 'cells': norm_list(exp)}, thunk

    def do_q_window(self, q, op):
        ref = self.ref
        size = op['size']
        ax = 0 if self.axis == 0 else 1
        n = ref.shape[0] if self.axis == 0 else ref.shape[1]
        items = op.get('items')
        kind = op['kind']
        site = f'Quilt.iter_window{"_array" if kind == "array" else ""}{"_items" if items else ""}'
        sf = self.sf

        opts = op.get('opts') or {}

        def windows_of(c):
            if kind == 'array':
                node = (c.iter_window_array_items if items else c.iter_window_array)(size=size, axis=ax, **opts)
            else:
                node = (c.iter_window_items if items else c.iter_window)(size=size, axis=ax, **opts)
            out = []
            for x in node:
                k, v = x if items else (None, x)
                o = observed(sf, v)
                o.pop('kinds', None)
                out.append((nlab(tuple(k) if isinstance(k, (tuple, np.ndarray, list)) else k), o) if items else o)
            return out

        def thunk():
            return windows_of(q)
        if op.get('wapply'):
            # function application over the windows: what the function is handed (array or Frame, its shape) and how the
            # results are labelled, against the same call on the concatenated Frame
            def applied(c):
                node = (c.iter_window_array if kind == 'array' else c.iter_window)(size=size, axis=ax, **opts)
                r = node.apply(_window_sig)
                o = observed(sf, r)
                return (tuple(o['index']), tuple(o['cells']))
            st_ref, exp_ref = call(lambda: applied(self._ref_frame()))
            if st_ref == 'raise' or not exp_ref[0]:
                return site, None, None
            return site + '.apply', {'t': 'tuple', 'cells': norm_list(list(exp_ref))}, lambda: applied(q)
        if opts:
            # with non-default options the expectation is the statement's own reference: the same call on the single Frame
            # made by concatenating the members (window arithmetic of a Frame is not the Quilt's business)
            st_ref, exp_ref = call(lambda: windows_of(self._ref_frame()))
            if st_ref == 'raise' or not exp_ref:
                return site, None, None  # the Frame refuses these options, or no window exists (empty selections: known finding)
            self.probe('window-options-checked-against-the-concatenated-frame')
            return site + '(options)', {'t': 'element', 'v': norm(exp_ref)}, thunk
        exp = []
        for end in range(size - 1, n):
            pos = list(range(end - size + 1, end + 1))
            if self.axis == 0:
                e = self._exp_sel({'l': pos}, {'all': 1})
                lab = nlab(ref.index[end])
            else:
                e = self._exp_sel({'all': 1}, {'l': pos})
                lab = nlab(ref.columns[end])
            e.pop('kinds', None)
            if kind == 'array':
                e = {'t': 'array', 'cells': e['rows']}
            exp.append((lab, e) if items else e)
        return site, {'t': 'element', 'v': norm(exp)}, thunk

    def do_q_headtail(self, q, op):
        nr = self.ref.shape[0]
        k = op['k']
        if op['which'] == 'head':
            return 'Quilt.head', self._exp_sel({'s': [0, k]}, {'all': 1}), lambda: q.head(k)
        return 'Quilt.tail', self._exp_sel({'s': [max(0, nr - k), nr]}, {'all': 1}), lambda: q.tail(k)

    def do_q_whole(self, q, op):
        ref = self.ref
        w = op['what']
        if w == 'values':
            return 'Quilt.values', {'t': 'array', 'cells': [[norm(v) for v in r] for r in ref.rows]}, lambda: q.values
        if w == 'to_frame':
            return 'Quilt.to_frame', self._exp_sel({'all': 1}, {'all': 1}), lambda: q.to_frame()
        sf = self.sf
        nr, nc = ref.shape
        exp = []
        for j in range(nc):
            e = self._exp_sel({'all': 1}, {'i': j})
            exp.append((nlab(ref.columns[j]), e))

        def thunk():
            out = []
            for k, s in q.items():
                out.append((nlab(tuple(k) if isinstance(k, (tuple, np.ndarray, list)) else k), observed(sf, s)))
            return out
        return 'Quilt.items', ({'t': 'element', 'v': norm(exp)} if self.axis == 1 else 'may-raise'), thunk

    def do_q_export(self, q, op):
        sf = self.sf
        fmt = op.get('fmt', 'zip_pickle')
        if len(self.quilts) >= 3 or not isinstance(self.members[0]['name'], str):
            return 'Quilt.to_zip_pickle', None, None  # stores need string labels or an encoder
        if fmt != 'zip_pickle' and self.date_axis:
            fmt = 'zip_pickle'  # text formats do not keep the label type (format envelope, not the Quilt's business)
        if fmt in ('zip_csv', 'zip_tsv') and any(str(x) in ('J', 'j') for m in self.members for x in list(m['columns']) + list(m['index'])):
            fmt = 'sqlite'  # the delimited reader takes the header label 'J' for the complex number 1j (format envelope, C16)
        ext = '.sqlite' if fmt == 'sqlite' else '.zip'
        path = os.path.join(self.dir, 'export%d%s' % (len(self.quilts), ext))

        def thunk():
            if os.path.exists(path):
                os.remove(path)
            getattr(q, 'to_' + fmt)(path)  # no config given: the exporter falls back to the Quilt's own
            kw = {} if fmt == 'zip_pickle' else {'config': sf.StoreConfig(index_depth=1, columns_depth=1)}
            q2 = getattr(sf.Quilt, 'from_' + fmt)(path, axis=self.axis, retain_labels=self.retain, max_persist=self.mp, **kw)
            f = q2.to_frame()
            if fmt == 'zip_pickle':
                self.quilts.append((q2, q2._bus))
            self.probe('export-and-reopen')
            return f
        return f'Quilt.to_{fmt}+from_{fmt}', self._exp_sel({'all': 1}, {'all': 1}), thunk

    # -- the other actor on the same Bus, and the file system
    def do_bus_access(self, op):
        bus = self.bus
        names = [self.members[i % len(self.members)]['name'] for i in op['ms']]
        how = op['how']

        def thunk():
            if how == 'one':
                return bus[names[0]]
            if how == 'list':
                return list(bus[names].items())
            if how == 'iloc':
                return bus.iloc[op['ms'][0] % len(self.members)]
            it = iter(bus.items())
            return [next(it) for _ in range(min(len(names), len(self.members)))]
        st, r = call(thunk)
        if st == 'raise':
            if self.stale and isinstance(r, self.StoreFileMutation):
                return 'stale-raise'
            if self.stale:
                return 'stale-raise-other'
            raise Violation('C19.quilt', 'Bus(direct access)', self._cls(), f'direct Bus access raised {type(r).__name__}: {r}')
        self.probe('direct-bus-access-between-quilt-operations')
        self._bound('Bus(direct access)')
        return 'ok'

    def do_fs(self, op):
        if self.config['backing'] == 'memory':
            return 'skip'
        self.clock += op.get('dt', 1)
        self.sim_time += op.get('dt', 1)
        ev = op['ev']
        ns = BASE_NS + self.clock * 10 ** 9
        if ev == 'rewrite_other':
            self._put('alt' if self.cur != 'alt' else 'orig', ns)
        elif ev == 'touch':
            if self.cur is None:
                return 'noop'
            os.utime(self.path, ns=(ns, ns))
            self.mtime = ns
        elif ev == 'delete':
            if os.path.exists(self.path):
                os.remove(self.path)
            self.cur = None
            self.mtime = None
        else:
            self._put('orig', self.mtime0)
        self.stale = not (self.cur == 'orig' and self.mtime == self.mtime0)
        self.fault('fs-' + ev)
        return 'ok'
