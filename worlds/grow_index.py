'''Flat index operations of GrowWorld (IndexGO family incl. auto-integer and datetime classes).'''
import copy
import pickle

import numpy as np
from static_frame.core.index_base import IndexBase

from sim.core import Violation
from sim.snap import norm, norm_list, snap_index, first_diff, arr_cells, strict_snap
from worlds.base import SimulatedFailure, enc, dec, call
from worlds.gmodel import IxM, DATE_UNITS, GO_OF, STATIC_OF, is_go, unhashable, expected_index_snap, learn_index

STRS = list('abcdefgh')
INTS = list(range(10)) + [-1, -3]  # negative integers are labels too (and look like positions)
# integers that float64 cannot hold, of both signs, next to floats and small ints: the array must stay exact (object), the
# i-th value must still be the i-th label. Construction only: growth re-casting is a recorded behaviour (KNOWN_FINDINGS, reported)
NUMS = [2 ** 53 + 1, -(2 ** 53 + 1), 2 ** 53 + 3, -(2 ** 53 + 3), 0.5, 2.5, -1.5, 3, -1, 7]
DATES = {
    'D': ['2020-01-%02d' % i for i in range(1, 11)],
    'M': ['2020-%02d' % i for i in range(1, 11)],
    'Y': ['%d' % (2010 + i) for i in range(10)],
    's': ['2020-01-01T00:00:%02d' % i for i in range(10)],
}
NAMES = [None, 'nm', {'t': ['x', 'y']}]
FLAT_CLASSES = [('IndexGO', 6), ('auto', 3), ('auto_static', 1.5), ('dt64_plain', 0.8), ('td64_plain', 0.6), ('IndexDateGO', 1.5), ('IndexYearMonthGO', 0.7),
                ('IndexYearGO', 0.7), ('IndexSecondGO', 0.5), ('Index', 0.7), ('IndexDate', 0.3)]
IX_DERIVES = ['copy', 'deepcopy', 'pickle', 'static', 'go', 'rename', 'relabel', 'roll', 'sort', 'iloc_sel', 'iloc_slice', 'iloc_slice', 'iloc_mask',
              'loc_sel', 'drop_iloc', 'head', 'tail', 'union', 'intersection', 'difference', 'astype',
              'level_add', 'copy_copy', 'to_series_index', 'frame_columns', 'values_ctor', 'union_none', 'intersection_none']


def raw_labels(obj):
    '''Python-level labels of a flat index via public iteration.'''
    return list(obj)


def label_pool(m):
    u = m.unit
    if u is not None:
        return 'date', DATES[u]
    if m.raw and all(isinstance(x, (int, np.integer)) and not isinstance(x, (bool, np.bool_, np.timedelta64)) for x in m.raw):
        return 'int', INTS
    if m.raw and all(isinstance(x, str) for x in m.raw):
        return 'str', STRS
    if not m.raw:
        return 'any', INTS + STRS
    return 'mix', INTS + STRS


def safe_eq(a, b):
    '''Python equality as a plain bool (False when the comparison is an array or raises).'''
    try:
        v = a == b
        return bool(v) if isinstance(v, (bool, np.bool_)) else False
    except Exception:
        return False


def unorderable_mix(ix):
    '''True if the labels of some depth cannot be sorted (strings next to numbers, numbers next to dates ...): set
    operations then return them in set order, which depends on the interpreter's hash seed.'''
    try:
        rows = [tuple(t) for t in ix] if ix.depth > 1 else [(x,) for x in ix]
    except Exception:
        return False
    for d in range(ix.depth if rows else 0):
        col = [r[d] for r in rows if d < len(r)]
        if len({isinstance(x, str) for x in col}) > 1:
            return True
        try:
            sorted(col)
        except Exception:
            return True
    return False


def raw_duplicates(obj):
    '''True if two labels held by the index are the same key of a hash map (equal AND equally hashed): the library's
    notion of a duplicate. (`datetime.date(2013, 1, 1) == numpy.datetime64('2013')` is True under NumPy 2, but the two
    hash differently and are different keys - and different labels - for every dict, set and for the index.)'''
    try:
        raw = [tuple(r) for r in obj.values] if obj.depth > 1 else list(obj.values)
        return len(set(raw)) != len(raw)
    except Exception:
        return True


class IndexOps:

    # ------------------------------------------------------------------ generation
    def gen_new_ix(self, ch):
        cls = ch.weighted(FLAT_CLASSES)
        n = ch.randint(0, 5)
        op = {'op': 'new_ix', 'out': self.next_h, 'name': ch.choice(NAMES), 'route': ch.choice(['list', 'gen', 'array', 'tuple'])}
        if cls in ('auto', 'auto_static'):
            op['cls'] = 'IndexGO' if cls == 'auto' else 'Index'
            op['auto'] = True
            op['labels'] = list(range(n if cls == 'auto' else ch.randint(0, 9)))
            return op
        if cls == 'td64_plain':
            # a plain IndexGO over timedelta64 labels: they must stay timedelta64 whatever is appended later
            op['cls'] = 'IndexGO'
            op['td64'] = ch.choice(['D', 's', 'ns'])
            op['labels'] = ch.sample(range(1, 9), n)
            return op
        if cls == 'dt64_plain':
            # a plain IndexGO built from a datetime64 array (as FrameGO(columns=array_of_dates) gets it)
            op['cls'] = 'IndexGO'
            op['dt64'] = ch.choice(['D', 'ns', 's'])
            op['labels'] = ch.sample(DATES['D'], n)
            return op
        op['cls'] = cls
        u = DATE_UNITS.get(cls)
        if u:
            labels = ch.sample(DATES[u], n)
            if ch.chance(0.5):
                labels = sorted(labels)
            if u in ('Y', 'D', 's') and ch.chance(0.1):
                op['auto_src'] = True
        else:
            fam = ch.choice(['str', 'int', 'mix', 'int0', 'str', 'int', 'mix', 'int0', 'num'])
            if fam == 'int0':
                labels = list(range(n))
            elif fam == 'num':
                labels = ch.sample(NUMS, min(n, len(NUMS)))
                op['num'] = True
            else:
                pool = {'str': STRS, 'int': INTS, 'mix': INTS + STRS}[fam]
                labels = ch.sample(pool, n)
        if labels and self.want_fault(ch):
            labels.insert(ch.randint(0, len(labels)), ch.choice(labels))  # duplicate -> must be rejected
        if not u and not op.get('num') and ch.chance(0.12):
            # the public dtype argument: the index holds (and must be unique over) the *converted* labels
            op['dtype'] = ch.choice(['int', 'float', 'str', 'object'])
            if ch.chance(0.6):
                labels = ch.sample([1.2, 1.7, 2.0, 3.5, 4.0, 7.25, 3], ch.randint(0, 4))
        op['labels'] = labels
        return op

    def _gen_label_for(self, ch, e, fault):
        m = e.model
        fam, pool = label_pool(m)
        held = m.labels()
        if fault:
            ints = [x for x in m.raw if isinstance(x, (int, np.integer)) and not isinstance(x, (bool, np.bool_, np.timedelta64))]
            kind = ch.weighted([('dup', 4 if m.raw else 0), ('unhashable', 2), ('bad', 1 if fam == 'date' else 0),
                                ('eqfloat', 2 if ints else 0), ('nptype', 0.7 if fam != 'date' else 0), ('odd', 0.7 if fam != 'date' else 0)])
            if kind == 'odd':
                # hashable, but sized or carrying a dtype attribute that is not a dtype: accepted or refused, never half stored
                return ch.choice([{'range': [0, 2, 1]}, {'range': [0, 3, 1]}, {'fset': [1, 2]}, {'nptype': 'ndarray'}, {'sfcls': 'Series'}])
            if kind == 'eqfloat':
                return float(ch.choice(ints))  # equal to a held label by Python equality (1.0 == 1)
            if kind == 'nptype':
                return {'nptype': ch.choice(['float64', 'int64'])}
            if kind == 'dup':
                x = ch.choice(m.raw)
                if fam == 'date':
                    return {'d': str(x)} if ch.chance(0.5) else str(x)
                return enc(x)
            if kind == 'unhashable':
                return {'u': [ch.choice(INTS)]}
            return 'zz'
        if fam == 'date':
            free = [s for s in pool if norm(np.datetime64(s, m.unit)) not in held]
            if not free:
                return None
            s = ch.choice(free)
            return {'d': s} if ch.chance(0.3) else s
        if ch.chance(0.04):
            td = np.timedelta64(20 + len(m.raw), 'D')
            if norm(td) not in held:
                return {'td': [20 + len(m.raw), 'D']}  # a duration next to whatever is held: nothing held may be converted
        if e.extra.get('auto') and ch.chance(0.08):
            return float(len(m.raw))  # equal to the next position, but a float: a new label like any other
        if e.extra.get('auto') and ch.chance(0.6):
            return len(m.raw)  # keeps loc_is_iloc
        free = [x for x in pool if norm(x) not in held]
        if fam in ('int', 'any') and ch.chance(0.3):
            free = [x for x in STRS if norm(x) not in held] or free  # type-changing append
        if not free:
            return 100 + len(m.raw)
        return ch.choice(free)

    def gen_ix_grow(self, ch):
        hs = self.handles(lambda e: e.kind == 'ix' and e.go)
        if not hs:
            return self.gen_new_ix(ch)
        h = ch.choice(hs)
        e = self.ents[h]
        fault = self.want_fault(ch)
        if ch.chance(0.55):
            lab = self._gen_label_for(ch, e, fault)
            if lab is None:
                return None
            return {'op': 'ix_append', 'h': h, 'label': lab}
        k = ch.randint(0, 4)
        labels = []
        tmp = IxM(e.model.cls, list(e.model.raw))
        e2 = type(e)(e.h, e.kind, None, tmp, True)
        e2.extra = dict(e.extra)
        for _ in range(k):
            lab = self._gen_label_for(ch, e2, False)
            if lab is None:
                break
            labels.append(lab)
            try:
                tmp.raw.append(tmp.coerce(dec(lab)))
            except Exception:
                pass
        mode = ch.choice(['list', 'gen', 'tuple', 'array'])
        op = {'op': 'ix_extend', 'h': h, 'labels': labels, 'mode': mode}
        if fault and labels:
            kind = ch.choice(['dup_held', 'dup_within', 'gen_fail', 'unhashable'])
            pos = ch.randint(0, len(labels))
            if kind == 'dup_held' and e.model.raw:
                labels.insert(pos, enc(ch.choice(e.model.raw)) if e.model.unit is None else str(ch.choice(e.model.raw)))
            elif kind == 'dup_within':
                labels.insert(pos, labels[ch.randint(0, len(labels) - 1)])
            elif kind == 'gen_fail':
                op['mode'] = 'gen_fail'
                op['fail_at'] = ch.randint(0, len(labels))
            else:
                labels.insert(pos, {'u': [1]})
                if op['mode'] == 'array':
                    op['mode'] = 'list'
        return op

    def gen_ix_derive(self, ch):
        hs = self.handles(lambda e: e.kind == 'ix')
        if not hs:
            return None
        h = ch.choice(hs)
        how = ch.choice(IX_DERIVES)
        op = {'op': 'ix_derive', 'h': h, 'how': how, 'out': self.next_h}
        n = len(self.ents[h].model.raw)
        if how in ('roll', 'head', 'tail'):
            op['k'] = ch.randint(0, 3)
        elif how == 'sort':
            op['asc'] = ch.chance(0.5)
        elif how == 'iloc_sel':
            op['pos'] = sorted(ch.sample(range(n), ch.randint(0, n))) if n else []
        elif how == 'loc_sel':
            op['pos'] = ch.sample(range(n), ch.randint(0, n)) if n else []
        elif how == 'iloc_slice':
            op['sl'] = [ch.choice([None, 0, 0, 1, 2]), ch.choice([None, None, n, max(n - 1, 0), 3]), ch.choice([None, 1, 2, 2, 3, -1, -2])]
        elif how == 'iloc_mask':
            op['mask'] = [ch.chance(0.5) for _ in range(n)]
        elif how == 'drop_iloc':
            op['pos'] = ch.randint(0, n - 1) if n else 0
        elif how in ('union', 'intersection', 'difference'):
            others = [x for x in hs if x != h]
            if not others:
                return None
            op['other_h'] = ch.choice(others)
        elif how == 'astype':
            op['to'] = ch.choice(['object', 'str', 'float'])
        return op

    # ------------------------------------------------------------------ construction
    def _ix_cls(self, name):
        return getattr(self.sf, name)

    def do_new_ix(self, op, dec_):
        sf = self.sf
        cls = op['cls']
        labels = [dec(x) for x in op['labels']]
        name = dec(op.get('name'))
        u = DATE_UNITS.get(cls)
        try:
            coerced = [np.datetime64(x, u) for x in labels] if u else list(labels)
        except Exception:
            return 'skip'
        dup = len(set(norm_list(coerced))) != len(coerced)
        route = op.get('route', 'list')
        if op.get('td64'):
            coerced = [np.timedelta64(int(x), op['td64']) for x in labels]
            dup = len(set(labels)) != len(labels)
            st, r = call(lambda: sf.IndexGO(np.array(labels, dtype='timedelta64[%s]' % op['td64']), name=name))
        elif op.get('auto_src') and u:
            # a datetime-typed index made from a default (auto-integer, map-less) index: the integers are converted
            n_ = len(labels)
            coerced = [np.datetime64(i, u) for i in range(n_)]
            dup = False
            st, r = call(lambda: self._ix_cls(cls)(sf.Series(np.zeros(n_)).index, name=name))
        elif op.get('dt64'):
            coerced = [np.datetime64(x, op['dt64']) for x in labels]
            st, r = call(lambda: sf.IndexGO(np.array(labels, dtype='datetime64[%s]' % op['dt64']), name=name))
        elif op.get('auto'):
            if labels != list(range(len(labels))):
                return 'skip'
            if False:
                pass
            elif cls == 'Index':
                # the default (auto-integer, map-less) index of a Series, as every user gets it
                st, r = call(lambda: sf.Series(np.arange(len(labels)) * 2).index.rename(name))
            else:
                st, r = call(lambda: sf.IndexGO(np.arange(len(labels)), loc_is_iloc=True, name=name))
        else:
            if route == 'gen':
                arg = (x for x in labels)
            elif route == 'tuple':
                arg = tuple(labels)
            elif route == 'array' and not u and labels and len({type(x) for x in labels}) == 1:
                arg = np.array(labels)
            else:
                arg = list(labels)
            if op.get('dtype'):
                dt = {'int': np.int64, 'float': np.float64, 'str': str, 'object': object}[op['dtype']]
                try:
                    coerced = np.array(labels, dtype=dt).tolist() if labels else []
                except Exception:
                    return 'skip'
                dup_after = len(set(norm_list(coerced))) != len(coerced)
                if dup_after and not dup:
                    self.fault('construct-duplicate-after-dtype-conversion')
                dup = dup or dup_after
                st, r = call(lambda: self._ix_cls(cls)(arg, name=name, dtype=dt))
            else:
                st, r = call(lambda: self._ix_cls(cls)(arg, name=name))
        site = f'{cls}.__init__' + ('(dtype)' if op.get('dtype') else '')
        if dup:
            self.fault('construct-duplicate')
            if st == 'ok':
                if self.want('C02.reject'):
                    raise Violation('C02.reject', site, 'duplicate-labels', f'constructed {r!r:.200} from {labels!r}')
                return 'accepted-dup'
            if self.want('C02.reject') and not isinstance(r, sf.ErrorInitIndex):
                raise Violation('C02.reject.class', site, 'duplicate-labels', f'raised {type(r).__name__}: {r}')
            return 'rejected'
        if st == 'raise':
            self.stats['construct_raise'] += 1
            return 'raise:' + type(r).__name__
        m = IxM(cls, coerced, name)
        e = self.add('ix', r, m, is_go(cls), origin=site, h=op['out'])
        e.extra['auto'] = bool(op.get('auto'))
        learn_index(m, snap_index(r))
        self.check_ent(e, op, full=True)
        if op.get('num'):
            self.stats['probe:big-int-next-to-float-construction'] += 1
            self.ents.pop(e.h, None)  # checked as constructed; not grown or derived (see NUMS)
        return 'ok'

    # ------------------------------------------------------------------ growth
    def _classify_label(self, e, label):
        '''-> (expectation, input class) for appending `label` to e.'''
        m = e.model
        auto = '-auto' if e.extra.get('auto') else ''
        if unhashable(label):
            return 'may', 'unhashable' + auto
        if isinstance(label, type):
            return 'may', 'numpy-type-label' + auto
        if isinstance(label, (range, frozenset)):
            return 'may', 'sized-hashable-label' + auto
        u = m.unit
        if u is not None:
            try:
                c = np.datetime64(label, u)
                if np.isnat(c):
                    return 'may', 'bad-date'
            except Exception:
                return 'may', 'bad-date'
            if norm(c) in m.labels():
                return 'must', 'duplicate'
            return 'accept', 'new-date'
        if norm(label) in m.labels():
            return 'must', 'duplicate' + auto
        if e.extra.get('auto'):
            if isinstance(label, int) and label == len(m.raw):
                return 'accept', 'next-int-auto'
            return 'accept', 'promote-auto'
        return 'accept', 'new-' + type(label).__name__

    def _twin(self, e):
        '''A fresh object built from the reference model alone (never touched by a failed call).'''
        sf = self.sf
        m = e.model
        if e.kind == 'ix':
            if e.extra.get('auto'):
                return sf.IndexGO(np.arange(len(m.raw)), loc_is_iloc=True)
            return getattr(sf, m.cls)(list(m.raw))
        if e.kind == 'ih':
            if not m.raw:
                return None
            return sf.IndexHierarchyGO.from_labels(m.raw, index_constructors=list(e.obj.index_types.values))
        if e.kind == 'fr':
            cm = m.columns
            if cm.hier:
                if not cm.raw:
                    return None
                cols = sf.IndexHierarchyGO.from_labels(cm.raw)
            else:
                cols = type(e.obj.columns)(cm.raw) if not e.extra.get('auto_cols') else None
            if not m.data:
                return sf.FrameGO(index=e.obj.index, columns=cols)
            rows = [[c[i] for c in m.data] for i in range(len(m.index.raw))]
            return sf.FrameGO.from_records(rows, index=e.obj.index, columns=cols) if rows else None
        return None

    def _grow_call(self, e, fn, exp):
        '''Run growth `fn` on the object. A *shadow* - a deep copy taken before the first call that is expected
        to be rejected - receives only the calls the object accepted, so it never sees a rejected call: after
        every later accepted growth both must look the same, dtypes included (a rejected call must leave no
        hidden trace that surfaces only on the next growth).'''
        import copy
        shadow = e.extra.get('shadow')
        pre = None
        if shadow is None and exp != 'accept' and self.want('C09.atomic'):
            st0, pre = call(copy.deepcopy, e.obj)
            if st0 == 'raise':
                pre = None
        st, r = call(fn, e.obj)
        if st == 'raise':
            if shadow is None and pre is not None:
                e.extra['shadow'] = pre
        elif shadow is not None:
            e.extra['shadow_applied'] = call(fn, shadow)[0]
        return st, r

    def _shadow_check(self, e, site, cls):
        shadow = e.extra.get('shadow')
        if shadow is None or not self.want('C09.atomic'):
            return
        if e.extra.pop('shadow_applied', 'ok') != 'ok':
            e.extra.pop('shadow', None)  # the copy rejected what the object accepted: not comparable any further
            return
        st, a = call(strict_snap, e.obj)
        st2, b = call(strict_snap, shadow)
        self.probe('shadow-compared-after-rejected-growth')
        if st == 'ok' and st2 == 'ok' and a != b:
            raise Violation('C09.atomic.trace', site, cls, 'after a rejected growth call and a later accepted one the container differs from a '
                            'copy that never saw the rejected call: ' + first_diff(b, a))

    def _growth_failed(self, e, op, site, cls, supplied, exc, expectation, fn=None):
        '''Common handling of a growth call that raised.'''
        self.fault('growth-' + cls.split('@')[0])
        if expectation == 'accept':
            self.stats['unexpected_reject'] += 1
            if e.extra.get('failed') and self.want('C09.atomic') and fn is not None:
                # "fully usable": the same valid call on a twin built from the model alone succeeds
                st, twin = call(self._twin, e)
                if st == 'ok' and twin is not None:
                    st2, _ = call(fn, twin)
                    if st2 == 'ok':
                        self.probe('twin-accepts-what-damaged-object-rejects')
                        raise Violation('C09.atomic.unusable', site, e.extra.get('last_growth', ('', cls))[1],
                                        f'after an earlier failed growth call, a valid growth ({cls}) raised '
                                        f'{type(exc).__name__}: {exc}; a fresh equal container accepts it')
        e.extra['failed'] = True
        e.extra['last_growth'] = (site, cls)
        e.extra['pending_fail'] = {'site': site, 'cls': cls, 'supplied': supplied}
        self.check_ent(e, op, full=True)
        e.extra.pop('pending_fail', None)
        return 'raise:' + ('sim' if isinstance(exc, SimulatedFailure) else type(exc).__name__)

    def _readable_after_accept(self, e, site, cls, labels=(), single=True):
        '''A growth call that returned normally must leave a container that can be read (labels and data in step).'''
        obj = e.obj

        def read():
            if e.kind == 'fr':
                return (obj.shape, obj.values.shape, len(obj.columns), list(obj.columns), obj.columns.values.shape)
            return (len(obj), list(obj), obj.values.shape)
        st, r = call(read)
        bad = st == 'raise' or (e.kind != 'fr' and not (r[0] == len(r[1]) == r[2][0])) or (e.kind == 'fr' and not (r[0][1] == r[1][1] == r[2] == len(r[3]) == r[4][0]))
        oracle = 'C09.lockstep' if self.profile == 'C09' else self.profile + '.bijection' if self.profile == 'C02' else 'C05.views'
        if bad:
            if self.want(oracle):
                raise Violation(oracle, site, cls, f'the growth call was accepted but the container cannot be read consistently afterwards: {r!r:.300}')
            return
        ix = obj.columns if e.kind == 'fr' else obj
        for lab in labels:
            if unhashable(lab) or (isinstance(lab, float) and lab != lab):
                continue
            stc, c = call(lambda: lab in ix)
            if self.want(oracle) and (stc == 'raise' or c is not True):
                raise Violation(oracle, site, cls, f'the growth call accepted the label {lab!r} but it is not a member afterwards (held: {list(ix)!r:.200})')
            if single and cls.startswith(('key-wrong-depth', 'odd-hashable', 'sized-hashable', 'numpy-type-label')) and len(labels) == 1:
                # an accepted label is held as given (a bytes key on a hierarchy is "found" through its integer elements)
                stl, last = call(lambda: list(ix)[-1])
                same = stl == 'ok' and type(last) is type(lab) and last == lab
                if self.want(oracle) and not same:
                    raise Violation(oracle, site, cls, f'the growth call accepted the label {lab!r} but holds {last!r} instead')

    def _growth_ok(self, e, site, cls):
        self.stats['grow:' + site] += 1
        if e.extra.get('warm'):
            self.probe('growth-after-cache-materialised')
        if e.extra.get('failed'):
            self.probe('valid-growth-after-failed-growth')
        e.extra['failed'] = False
        e.extra['last_growth'] = (site, cls)
        self.touch(e, warm=0)
        self._shadow_check(e, site, cls)

    def do_ix_append(self, op, dec_):
        e = self.get(op['h'], ('ix',))
        if e is None or not e.go:
            return 'skip'
        label = dec(op['label'])
        m = e.model
        site = f'{m.cls}.append'
        exp, cls = self._classify_label(e, label)
        fn = lambda t: t.append(label)
        st, r = self._grow_call(e, fn, exp)
        if st == 'raise':
            return self._growth_failed(e, op, site, cls, [label], r, exp, fn)
        if exp == 'must':
            prop = self.profile
            if self.want('C09.reject') or self.want('C02.unique'):
                raise Violation(f'{prop}.reject' if prop == 'C09' else 'C02.unique', site, cls, f'duplicate {label!r} accepted')
            del self.ents[e.h]
            return 'accepted-dup'
        if exp == 'may':
            # accepted something we cannot model (e.g. NaT); stop following this object - but what was accepted must be held
            self._readable_after_accept(e, site, cls, labels=[label])
            del self.ents[e.h]
            return 'accepted-unmodelled'
        was_auto = e.extra.get('auto')
        if cls == 'promote-auto':
            e.extra['auto'] = False
            self.probe('map-promoted-from-loc_is_iloc')
        m.raw.append(m.coerce(label))
        m.wild()
        self._growth_ok(e, site, cls)
        return 'ok'

    def do_ix_extend(self, op, dec_):
        e = self.get(op['h'], ('ix',))
        if e is None or not e.go:
            return 'skip'
        m = e.model
        labels = [dec(x) for x in op['labels']]
        mode = op.get('mode', 'list')
        site = f'{m.cls}.extend'
        # expectation
        exp = 'accept'
        cls = 'all-new'
        seen = list(m.labels())
        tmp_auto = e.extra.get('auto')
        coerced = []
        for i, lab in enumerate(labels):
            if mode == 'gen_fail' and i == op.get('fail_at', 0):
                break
            x, c = self._classify_label(e, lab)
            if x == 'may':
                exp, cls = 'may', f'{c}@{min(i, 1)}'
                break
            try:
                cv = m.coerce(lab)
            except Exception:
                exp, cls = 'may', f'bad@{min(i, 1)}'
                break
            if norm(cv) in seen:
                exp, cls = 'must', f'duplicate@{"first" if i == 0 else "later"}'
                break
            seen.append(norm(cv))
            coerced.append(cv)
        if mode == 'gen_fail' and exp == 'accept':
            exp, cls = 'fail', f'iterable-fails@{"first" if op.get("fail_at", 0) == 0 else "later"}'

        def gen():
            for i, lab in enumerate(labels):
                if mode == 'gen_fail' and i == op.get('fail_at', 0):
                    raise SimulatedFailure('iterable failed')
                yield lab
            if mode == 'gen_fail' and op.get('fail_at', 0) >= len(labels):
                raise SimulatedFailure('iterable failed')
        def fn(t):
            if mode in ('gen', 'gen_fail'):
                arg = gen()
            elif mode == 'tuple':
                arg = tuple(labels)
            elif mode == 'array' and labels and len({type(x) for x in labels}) == 1 and not any(unhashable(x) for x in labels):
                arg = np.array(labels)
            else:
                arg = list(labels)
            t.extend(arg)
        st, r = self._grow_call(e, fn, exp)
        if st == 'raise':
            return self._growth_failed(e, op, site, cls, labels, r, 'accept' if exp == 'accept' else exp, fn)
        if exp in ('must', 'fail'):
            if exp == 'must' and (self.want('C09.reject') or self.want('C02.unique')):
                raise Violation('C09.reject' if self.profile == 'C09' else 'C02.unique', site, cls, f'duplicate in {labels!r} accepted')
            del self.ents[e.h]
            return 'accepted-bad'
        if exp == 'may':
            self._readable_after_accept(e, site, cls)
            del self.ents[e.h]
            return 'accepted-unmodelled'
        if e.extra.get('auto'):
            for i, cv in enumerate(coerced):
                if not (isinstance(cv, int) and cv == len(m.raw) + i):
                    e.extra['auto'] = False
                    self.probe('map-promoted-from-loc_is_iloc')
                    break
        m.raw.extend(coerced)
        m.wild()
        if coerced:
            self._growth_ok(e, site, cls)
        return 'ok'

    # ------------------------------------------------------------------ derivation
    def do_ix_derive(self, op, dec_):
        sf = self.sf
        e = self.get(op['h'], ('ix',))
        if e is None:
            return 'skip'
        how = op['how']
        obj = e.obj
        m = e.model
        o = None
        if 'other_h' in op:
            oe = self.get(op['other_h'], ('ix',))
            if oe is None:
                return 'skip'
            o = oe.obj
        n = len(m.raw)

        def mk():
            if how == 'copy':
                return obj.copy()
            if how == 'copy_copy':
                return copy.copy(obj)
            if how == 'deepcopy':
                return copy.deepcopy(obj)
            if how == 'pickle':
                return pickle.loads(pickle.dumps(obj))
            if how == 'static':
                return getattr(sf, STATIC_OF.get(m.cls, m.cls))(obj)
            if how == 'go':
                return getattr(sf, GO_OF.get(m.cls, m.cls))(obj)
            if how == 'rename':
                return obj.rename('r2')
            if how == 'relabel':
                return obj.relabel(lambda x: (x, 1))
            if how == 'roll':
                return obj.roll(op.get('k', 1))
            if how == 'sort':
                return obj.sort(ascending=op.get('asc', True))
            if how == 'iloc_sel':
                return obj.iloc[[p for p in op.get('pos', []) if p < n]]
            if how == 'loc_sel':
                return obj.loc[[m.raw[p] for p in op.get('pos', []) if p < n]]
            if how == 'iloc_slice':
                return obj.iloc[slice(*op.get('sl', [None, None, None]))]
            if how == 'iloc_mask':
                return obj.iloc[np.array((list(op.get('mask', [])) + [False] * n)[:n], dtype=bool)]
            if how == 'drop_iloc':
                return obj.drop.iloc[op.get('pos', 0)]
            if how == 'head':
                return obj.head(op.get('k', 1))
            if how == 'tail':
                return obj.tail(op.get('k', 1))
            if how == 'union_none':
                return obj.union()  # no operands: still a new index
            if how == 'intersection_none':
                return obj.intersection()
            if how == 'union':
                return obj.union(o)
            if how == 'intersection':
                return obj.intersection(o)
            if how == 'difference':
                return obj.difference(o)
            if how == 'astype':
                return obj.astype({'object': object, 'str': str, 'float': float}[op.get('to', 'object')])
            if how == 'level_add':
                return obj.level_add('z')
            if how == 'to_series_index':
                return sf.Series(np.arange(n), index=obj).index
            if how == 'frame_columns':
                return sf.FrameGO(np.arange(n).reshape(1, n), columns=obj).columns if n else sf.FrameGO(columns=obj).columns
            if how == 'values_ctor':
                return type(obj)(obj.values)
            raise KeyError(how)
        # scoping: datetime64 objects held in a non-datetime (object) index get the library's documented loose
        # date matching on lookup; such indices are not generated (DESIGN 9, corrections)
        if how == 'level_add' and any((isinstance(x, np.datetime64) and np.datetime_data(x.dtype)[0] == 'ns') or isinstance(x, np.timedelta64) for x in m.raw):
            return 'skip'  # known: 2-D values of a hierarchy present nanosecond labels as integers (KNOWN_FINDINGS: audit C02/violation7)
        st, r = call(mk)
        if st == 'raise':
            self.stats['derive_raise:' + how] += 1
            return 'raise:' + type(r).__name__
        if not isinstance(r, IndexBase):
            return 'not-index'
        if how in ('union', 'intersection', 'difference') and unorderable_mix(r):
            # labels that cannot be ordered (str next to numbers) come out of a set operation in set order, which depends
            # on the interpreter's hash seed: such a result is checked once here (unique, readable) but not followed
            st_, raw_ = call(lambda: list(r))
            if st_ == 'raise' or len(set(map(repr, raw_))) != len(raw_) or len(raw_) != len(r):
                raise Violation('C02.unique' if self.profile == 'C02' else f'{self.profile}.views' if self.profile == 'C05' else 'C09.lockstep',
                                f'{m.cls}.{how}', 'unorderable-labels', f'set operation result unreadable or with repeated labels: {raw_!r:.200}')
            self.stats['derive-not-followed:hash-seed-dependent-order'] += 1
            return 'unordered-result'
        self.stats['derive:' + how] += 1
        site = f'{m.cls}.{how}'
        return self.adopt_index(r, op['out'], site, op)

    def adopt_index(self, r, h, site, op):
        '''Enter a derived index into the pool: its model is *learned* from public iteration; every
        later step then checks it never changes (isolation) and stays a bijection.'''
        sf = self.sf
        cname = type(r).__name__
        if isinstance(r, sf.IndexHierarchy):
            st, labs = call(lambda: [tuple(t) for t in r])
            if st == 'raise':
                if self.want(self.profile + '.derive'):
                    pass
                raise Violation(f'{self.profile}.views', site, 'derived-unreadable', f'iteration raised {type(labs).__name__}: {labs}')
            m2 = IxM(cname, labs, r.name, depth=r.depth)
            e2 = self.add('ih', r, m2, is_go(cname), origin=site, h=h)
            e2.extra['kinds'] = None
        else:
            st, labs = call(lambda: list(r))
            if st == 'raise':
                raise Violation(f'{self.profile}.bijection' if self.profile == 'C02' else f'{self.profile}.lockstep', site, 'derived-unreadable', f'iteration raised {type(labs).__name__}: {labs}')
            m2 = IxM(cname, labs, r.name)
            e2 = self.add('ix', r, m2, is_go(cname), origin=site, h=h)
            e2.extra['auto'] = False
            if is_go(cname) and labs == list(range(len(labs))) and getattr(r, '_map', 0) is None:
                # auto-integer status is only used to bias generation and to label input classes
                e2.extra['auto'] = True
        st, s = call(snap_index, r)
        if st == 'ok':
            learn_index(m2, s)
        self.check_ent(e2, op, full=True)
        return 'ok:' + cname

    # ------------------------------------------------------------------ oracles
    def check_ix(self, e, op, full=False):
        obj = e.obj
        m = e.model
        site, cls = self.blame(e, op)
        pend = e.extra.get('pending_fail')
        exp_labels = m.labels()
        P = self.profile

        def fail(oracle, detail, cls_=cls):
            raise Violation(oracle, site, cls_, detail)

        if P == 'C02' and m.raw and (len(m.raw) + e.h) % 2 == 1 and not (m.unit is None and isinstance(m.raw[-1], np.datetime64)):
            # sometimes the first read after a growth call is a lookup of the newest label (caches still cold)
            lab = m.raw[-1]
            st0, p0 = call(obj.loc_to_iloc, lab)
            if st0 == 'raise' or not isinstance(p0, (int, np.integer)) or int(p0) != len(m.raw) - 1:
                fail('C02.bijection', f'first read after growth: loc_to_iloc({lab!r}) -> {p0!r}, expected {len(m.raw) - 1}')
        if P in ('C02', 'C09') and (len(m.raw) + e.h) % 3 == 0 and hasattr(obj, 'iter_label'):
            # label iteration through the iterator interface, sometimes as the first read after growth
            st0, il = call(lambda: norm_list(list(obj.iter_label())))
            if st0 == 'raise' or il != exp_labels:
                o_ = 'C02.bijection' if P == 'C02' else ('C09.atomic.torn' if pend else 'C09.prefix' if (e.go and e.extra.get('last_growth') and not e.extra.get('failed')) else 'C09.isolation')
                fail(o_, f'iter_label() gives {il!r:.300}, expected {exp_labels!r:.300}')
        # observed primary views
        st, vals = call(lambda: arr_cells(obj.values))
        st2, it = call(lambda: norm_list(list(obj)))
        st3, ln = call(len, obj)
        if P == 'C09' and pend and st == st2 == st3 == 'ok' and vals == exp_labels:
            # a rejected label must not have become a member behind the labels' back
            for x in pend['supplied']:
                if unhashable(x):
                    continue
                try:
                    nx = norm(m.coerce(x))
                except Exception:
                    nx = norm(x)
                if nx in exp_labels or any(type(r) not in (np.datetime64, np.timedelta64) and not isinstance(x, type) and safe_eq(r, x) for r in m.raw):
                    continue
                stc, c = call(lambda: x in obj)
                if stc == 'ok' and c is not False:
                    fail('C09.atomic.torn', f'after the rejected growth call, {x!r} is reported as a member although it is not among the labels {vals!r:.200}')
        if P == 'C09':
            if 'raise' in (st, st2, st3):
                bad = [x for s_, x in ((st, vals), (st2, it), (st3, ln)) if s_ == 'raise'][0]
                fail('C09.atomic.torn' if pend else 'C09.lockstep', f'read raised {type(bad).__name__}: {bad}')
            if vals != exp_labels or it != exp_labels or ln != len(exp_labels):
                if pend:
                    sup = []
                    for x in pend['supplied']:
                        try:
                            sup.append(norm(m.coerce(x)))
                        except Exception:
                            sup.append(('unmodelled',))
                    coherent = (vals == it and ln == len(vals) and vals[:len(exp_labels)] == exp_labels
                                and vals[len(exp_labels):] == sup[:len(vals) - len(exp_labels)])
                    fail('C09.atomic.prefix-applied' if coherent else 'C09.atomic.torn',
                         f'after failed growth: values={vals!r:.300} iter={it!r:.300} len={ln}; expected unchanged {exp_labels!r:.300}')
                if e.go and e.extra.get('last_growth') and not e.extra.get('failed'):
                    fail('C09.prefix', f'values={vals!r:.300} iter={it!r:.300} len={ln}; expected {exp_labels!r:.300}')
                fail('C09.isolation', f'values={vals!r:.300} iter={it!r:.300} len={ln}; expected {exp_labels!r:.300}', cls_='changed-by:' + self.site_of(op))
            if not e.go or not e.extra.get('last_growth'):
                # never grown: the full snapshot (class, name, dtype) must stay what it was
                st, s = call(snap_index, obj)
                if st == 'ok':
                    ex = expected_index_snap(m, s)
                    if s != ex:
                        fail('C09.isolation', first_diff(ex, s), cls_='changed-by:' + self.site_of(op))
            return
        if P == 'C02':
            o = 'C02.bijection'
            if 'raise' in (st, st2, st3):
                bad = [x for s_, x in ((st, vals), (st2, it), (st3, ln)) if s_ == 'raise'][0]
                fail(o, f'read raised {type(bad).__name__}: {bad}')
            if ln != len(exp_labels):
                fail(o, f'len {ln} != {len(exp_labels)}')
            if it != exp_labels:
                fail(o, f'iteration {it!r:.300} != {exp_labels!r:.300}')
            if vals != exp_labels:
                fail(o, f'values {vals!r:.300} != {exp_labels!r:.300}')
            if len(set(vals)) != len(vals):
                if raw_duplicates(obj):
                    fail('C02.unique', f'duplicate labels held: {vals!r:.300}')
                # labels that differ for Python (datetime.datetime vs numpy.datetime64 of the same instant) but not for the
                # model's normalisation: the index is unique by the library's own notion; the model cannot follow it
                self.stats['unmodelled:labels-equal-only-after-normalisation'] += 1
                self.ents.pop(e.h, None)
                return
            st, rv = call(lambda: norm_list(list(reversed(obj))))
            if st == 'raise' or rv != exp_labels[::-1]:
                fail(o, f'reversed {rv!r:.300} != {exp_labels[::-1]!r:.300}')
            st, pos = call(lambda: obj.positions.tolist())
            if st == 'raise' or pos != list(range(len(exp_labels))):
                fail(o, f'positions {pos!r:.300}')
            for i, lab in enumerate(m.raw):
                st, p = call(obj.loc_to_iloc, lab)
                if st == 'raise' or not isinstance(p, (int, np.integer)) or int(p) != i:
                    fail(o, f'loc_to_iloc({lab!r}) -> {p!r}, expected {i}')
                st, c = call(lambda: lab in obj)
                if st == 'raise' or c is not True:
                    fail(o, f'{lab!r} in index -> {c!r}')
                if full:
                    st, v = call(lambda: obj.iloc[i])
                    if st == 'raise' or norm(v) != exp_labels[i]:
                        fail(o, f'iloc[{i}] -> {v!r}')
            fresh = 'never-used-label' if m.unit is None else np.datetime64('1999-01-01', m.unit)
            st, c = call(lambda: fresh in obj)
            if st == 'raise' or c is not False:
                fail(o, f'fresh label membership -> {c!r}')
            if m.unit in ('M', 'Y') and m.raw:
                # a date of finer resolution that falls inside a held period (not at its start) is not that period
                x = str(m.raw[0])
                fine = x + ('-15' if m.unit == 'M' else '-06')
                st, c = call(lambda: fine in obj)
                if st == 'raise' or c is not False:
                    fail(o, f'membership of the finer-resolution date {fine!r} (held: {x!r}) -> {c!r}')
            if e.extra.get('auto') and len(m.raw) >= 2:
                for other in (0.5, len(m.raw) - 1.5):
                    st, c = call(lambda: other in obj)
                    if st == 'raise' or c is not False:
                        fail(o, f'membership of the non-integer {other!r} in an auto-integer index -> {c!r}')
            if m.unit is not None:
                # values that are not dates at all are not members either (and asking must not raise)
                for other in ('never-used-label', ('a', 1)):
                    st, c = call(lambda: other in obj)
                    if st == 'raise' or c is not False:
                        fail(o, f'membership of {other!r} in a date index -> {c!r}')
            # membership is true *exactly* for held labels: labels of the generator's pools that are not held
            # (e.g. appended to a container this one was derived from, or to one derived from it) are not members
            pool = (STRS + INTS + [100 + i for i in range(4)]) if m.unit is None else [np.datetime64(x, m.unit) for x in DATES[m.unit]]
            held = set(exp_labels)
            for x in pool:
                if norm(x) in held or any(type(r) not in (np.datetime64, np.timedelta64) and safe_eq(r, x) for r in m.raw):
                    continue  # held (label equality is Python equality: True == 1)
                st, c = call(lambda: x in obj)
                if st == 'ok' and c is not False:
                    fail(o, f'label {x!r} is not held (held: {m.raw!r:.200}) but reported as a member')
            return
