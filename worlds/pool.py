'''PoolWorld: function application through worker pools under a simulated executor whose completion
order, early completions, task failures and worker crashes are seeded (inline mode), and - for thread
pools - real threads pre-empted at line granularity under a baton scheduler.  Serves C18 (and the
Batch part of C19).  DESIGN.md 5.6.
'''
import functools
import os
import pickle
import shutil
import tempfile

import numpy as np

from sim.core import Violation, canon, h64, HarnessError
from sim.snap import norm, norm_list, snap, snap_frame, snap_series, first_diff
from sim import executor as sx
from worlds.base import WorldBase, call, enc, dec
from worlds import poolfuncs as pf

ROWL = ['p', 'q', 'r', 's', 't', 'u', 'v', 'w']
COLL = ['A', 'B', 'C', 'D', 'E']

SERIES_IFACES = ['iter_element', 'iter_element_items', 'iter_group', 'iter_group_items', 'iter_window', 'iter_window_items',
                 'iter_window_array', 'iter_window_array_items', 'iter_group_labels', 'iter_group_labels_items']
FRAME_IFACES = ['iter_array', 'iter_array_items', 'iter_series', 'iter_series_items', 'iter_tuple', 'iter_tuple_items',
                'iter_element', 'iter_element_items', 'iter_group', 'iter_group_items', 'iter_window', 'iter_window_items',
                'iter_window_array', 'iter_window_array_items', 'iter_group_labels', 'iter_group_labels_items']
BATCH_STEPS = ['apply', 'apply_items', 'apply_series', 'apply_element', 'iloc', 'loc_cols', 'mul', 'sum', 'getitem', 'head',
               'apply_except', 'apply_items_except', 'rename', 'sort_index', 'transpose', 'cumsum', 'drop', 'min', 'neg', 'loc_rows', 'tail',
               'sum_noskip', 'mean', 'max', 'apply_none', 'apply_none_except', 'apply_grow', 'rsub', 'rmul', 'rfloordiv', 'apply_list', 'drop_getitem', 'drop_loc', 'apply_ragged', 'iloc_nocols', 'apply_mixed']


def gen_cells(ch, nr, j, kind):
    if kind == 'int':
        return [100 * j + i for i in range(nr)]
    if kind == 'float':
        return [100 * j + i + 0.5 for i in range(nr)]
    if kind == 'str':
        return ['s%d_%d' % (j, i) for i in range(nr)]
    return [(i + j) % 2 == 0 for i in range(nr)]


def gen_frame(ch, name, nr=None, nc=None, numeric=False, hier=None):
    nr = ch.randint(0, 6) if nr is None else nr
    nc = ch.randint(1, 4) if nc is None else nc
    hier = ch.chance(0.25) if hier is None else hier
    if hier and nr:
        index = [[['x', 'y', 'z'][i // 2 % 3], i % 2 + 1 + 2 * (i // 6)] for i in range(nr)]
    else:
        index = ROWL[:nr] if ch.chance(0.7) else list(range(10, 10 + nr))
        hier = False
    cols = []
    for j in range(nc):
        kind = ch.choice(['int', 'float']) if numeric else ch.choice(['int', 'float', 'str', 'bool'])
        cols.append(gen_cells(ch, nr, j, kind))
    return {'name': name, 'index': index, 'hier': hier, 'columns': COLL[:nc], 'cols': cols}


def gen_frame_fixed(i):
    return {'name': 'sb%d' % i, 'index': ROWL[:2 + i], 'hier': False, 'columns': COLL[:2], 'cols': [[100 * i + r for r in range(2 + i)], [100 * i + r + 0.5 for r in range(2 + i)]]}


def build_frame(sf, spec):
    if any(isinstance(v, dict) for c in spec['cols'] for v in c):
        spec = dict(spec)
        spec['cols'] = [[float('nan') if isinstance(v, dict) else v for v in c] for c in spec['cols']]
    if spec['hier']:
        index = sf.IndexHierarchy.from_labels([tuple(t) for t in spec['index']])
    else:
        index = sf.Index(spec['index'])
    return sf.Frame.from_items(zip(spec['columns'], spec['cols']), index=index, name=spec['name'])


def _probe_items(label, f, n=3, shared=None):
    return pf.frame_build_probe(f, n=n, shared=shared)


class PoolWorld(WorldBase):
    NAME = 'pool'

    @staticmethod
    def draw_config(ch, profile, tier):
        return {
            'steps': ch.randint(1, 6),
            'alloc_cap': ch.choice([0, 2, 8, 1024]),
            'p_early': ch.choice([0.0, 0.2, 0.5, 0.8]),
            'p_fault': ch.choice([0.0, 0.15, 0.3]),
            'mode': 'baton' if profile.endswith('T') else 'inline',
            'batch_only': profile == 'C19B',
        }

    @staticmethod
    def nontrivial(stats):
        return stats.get('pool:tasks', 0) >= 2

    @classmethod
    def simplify(cls, config, ops):
        # shorter scheduler decision lists (missing decisions replay as 0), smaller pools
        for i, op in enumerate(ops):
            sc = op.get('sched') or []
            if len(sc) > 4:
                for cut in (len(sc) // 2, len(sc) * 3 // 4):
                    o2 = dict(op)
                    o2['sched'] = sc[:cut]
                    yield config, ops[:i] + [o2] + ops[i + 1:]
            if op.get('k', 1) > 2:
                o2 = dict(op)
                o2['k'] = 2
                yield config, ops[:i] + [o2] + ops[i + 1:]

    def setup(self, log):
        super().setup(log)
        import static_frame as sf
        self.sf = sf
        # the executor seam: every name in the package that is bound to a concurrent.futures executor class or to
        # as_completed / wait is rebound to the simulated counterpart for the duration of the run
        import sys
        import concurrent.futures as cf
        table = {cf.ThreadPoolExecutor: sx.SimThreadPoolExecutor, cf.ProcessPoolExecutor: sx.SimProcessPoolExecutor,
                 cf.as_completed: sx.sim_as_completed, cf.wait: sx.sim_wait}
        self.saved = []
        for name, mod in sorted(sys.modules.items()):
            if mod is None or not (name == 'static_frame' or name.startswith('static_frame.')):
                continue
            for attr, val in list(vars(mod).items()):
                if not (isinstance(val, type) or callable(val)) or getattr(val, '__module__', '') is None \
                        or not str(getattr(val, '__module__', '')).startswith('concurrent.futures'):
                    continue
                rep = table.get(val)
                if rep is not None:
                    self.saved.append((mod, attr, val))
                    setattr(mod, attr, rep)
        self.dir = None
        self.nstates = 0

    def teardown(self):
        for mod, attr, val in self.saved:
            setattr(mod, attr, val)
        sx.CURRENT['sim'] = None
        if self.dir:
            shutil.rmtree(self.dir, ignore_errors=True)

    def state_hash(self):
        return h64(canon([self.nstates, sorted(self.stats.items())[:0]]))

    # ------------------------------------------------------------------ generation
    def gen_op(self, ch):
        if self.config.get('mode') == 'baton':
            return self.gen_thread_pool(ch)
        if self.profile == 'C19B':
            op = self.gen_batch_pool(ch)
            op['op'] = 'batch_direct'
            op['use_pool'] = ch.chance(0.5)
            if op['export'] == 'items_partial':
                op['export'] = 'items'
            return op
        what = ch.weighted([('iter_pool', 6), ('batch_pool', 4), ('zip_pool', 1.5)])
        return getattr(self, 'gen_' + what)(ch)

    def gen_thread_pool(self, ch):
        nr = ch.randint(2, 6)
        op = {'op': 'thread_pool', 'ctype': 'series', 'iface': 'iter_element',
              'spec': {'name': 'se', 'index': ROWL[:nr], 'hier': False, 'values': gen_cells(ch, nr, 1, ch.choice(['int', 'str']))},
              'func': ch.choice(['build_and_probe', 'probe_shared', 'probe_shared', 'probe_bus', 'probe_bus_direct', 'probe_bus_whole', 'probe_bus_iloc', 'sample_in_task', 'alloc_probe']), 'mp': ch.choice([None, None, 1, 2]),
              'k': ch.randint(2, 4), 'p': ch.choice([0.02, 0.05, 0.1, 0.3]), 'hw': ch.choice([1, 1, 8, 25]), 'stall': ch.choice([0, 0, 3, 3, 8, 20]), 'rel': ch.chance(0.5),
              'grow_ih': ch.randint(0, 3), 'grow_ix': ch.randint(0, 3), 'n': ch.randint(1, 4)}
        if op['func'] == 'alloc_probe':
            op['sizes'] = ch.sample([2, 3, 5, 7, 9, 12, 17, 33], ch.randint(2, 4))
        if ch.chance(0.25):
            n = ch.randint(2, 5)
            return {'op': 'thread_batch', 'frames': [gen_frame(ch, 'b%d' % i, nr=ch.randint(1, 4), nc=ch.randint(1, 3), numeric=True, hier=False) for i in range(n)],
                    'k': ch.randint(2, 4), 'p': ch.choice([0.02, 0.05, 0.1, 0.3]), 'hw': ch.choice([1, 1, 8, 25]), 'stall': ch.choice([0, 0, 3, 3, 8, 20]), 'rel': ch.chance(0.5), 'grow_ih': ch.randint(0, 3), 'grow_ix': ch.randint(0, 3), 'n': ch.randint(1, 4),
                    'shared': ch.chance(0.6), 'export': ch.choice(['to_frame', 'items', 'to_bus']), 'via': ch.choice(['apply', 'apply_items', 'attr', 'sample'])}
        if ch.chance(0.4):
            op['ctype'] = 'frame'
            op['spec'] = gen_frame(ch, 'fr', nr=ch.randint(2, 4), nc=ch.randint(2, 3), hier=False)
            op['iface'] = ch.choice(['iter_series', 'iter_array', 'iter_tuple'])
            op['axis'] = ch.randint(0, 1)
        return op

    def _pool_params(self, ch, n):
        op = {'k': ch.randint(1, 8), 'chunk': ch.randint(1, max(1, n + 1)), 'threads': ch.chance(0.5)}
        if ch.chance(self.config['p_fault']):
            kind = ch.weighted([('task', 4), ('crash', 2), ('unpicklable', 1)])
            if kind == 'task':
                op['fail_at'] = ch.randint(0, max(0, n - 1))
            elif kind == 'crash':
                op['threads'] = False
                op['crash_at'] = ch.randint(0, max(0, n - 1))
            else:
                op['threads'] = False
                op['unpicklable'] = True
        return op

    def gen_iter_pool(self, ch):
        ctype = ch.weighted([('frame', 6), ('series', 3), ('index', 1), ('bus', 1)])
        op = {'op': 'iter_pool', 'ctype': ctype}
        if ctype == 'frame':
            spec = gen_frame(ch, 'fr', nr=ch.randint(0, 6))
            iface = ch.choice(FRAME_IFACES)
            op.update({'spec': spec, 'iface': iface, 'axis': ch.randint(0, 1)})
            if iface.startswith('iter_tuple'):
                op['named_tuple'] = ch.chance(0.5)
            if 'group' in iface and 'labels' not in iface:
                # a grouping column with repeats
                g = [ch.randint(0, 2) for _ in spec['index']]
                spec['columns'] = spec['columns'] + ['G']
                spec['cols'] = spec['cols'] + [g]
            if 'window' in iface:
                op['size'] = ch.randint(1, 3)
            n = max(len(spec['index']), len(spec['columns']))
        elif ctype == 'series':
            nr = ch.randint(0, 7)
            kind = ch.choice(['int', 'str', 'float'])
            iface = ch.choice(SERIES_IFACES)
            vals = gen_cells(ch, nr, 1, kind)
            if 'group' in iface and 'labels' not in iface:
                vals = [ch.randint(0, 2) for _ in range(nr)]
            hier = 'group_labels' in iface or ch.chance(0.2)
            index = [[['x', 'y', 'z'][i // 2 % 3], i % 2 + 1 + 2 * (i // 6)] for i in range(nr)] if hier else ROWL[:nr]
            op.update({'spec': {'name': 'se', 'index': index, 'hier': hier, 'values': vals}, 'iface': iface})
            if 'window' in iface:
                op['size'] = ch.randint(1, 3)
            n = nr
        elif ctype == 'index':
            nr = ch.randint(0, 7)
            op.update({'spec': {'labels': ch.sample(ROWL, nr)}, 'iface': 'iter_label'})
            n = nr
        else:
            n = ch.randint(1, 5)
            op.update({'spec': {'frames': [gen_frame(ch, 'f%d' % i, nr=ch.randint(1, 3), nc=ch.randint(1, 3), hier=False) for i in range(n)]},
                       'iface': ch.choice(['iter_element', 'iter_element_items'])})
        if ctype == 'frame' and op['iface'].startswith('iter_group_labels') and not op['spec']['hier']:
            op['spec'] = gen_frame(ch, 'fr', nr=ch.randint(1, 6), hier=True)
        op.update(self._pool_params(ch, n))
        return op

    def gen_batch_pool(self, ch):
        n = ch.randint(1, 5)
        frames = [gen_frame(ch, 'b%d' % i, nr=ch.randint(1, 4), nc=ch.randint(2, 4), numeric=True, hier=False) for i in range(n)]
        if ch.chance(0.4):
            # missing values: NA handling is part of what a Batch must pass through unchanged
            for f in frames:
                for c in f['cols']:
                    if c and isinstance(c[0], float) and ch.chance(0.5):
                        c[ch.randint(0, len(c) - 1)] = {'nan': 1}
        depth = ch.randint(1, 3)
        chain = [ch.choice(BATCH_STEPS) for _ in range(depth)]
        for i, st_ in enumerate(chain):
            if st_ in ('sum', 'min', 'mean', 'max', 'sum_noskip', 'apply_element', 'apply_series', 'apply_none', 'apply_none_except', 'apply_list', 'apply_ragged', 'iloc_nocols', 'apply_mixed'):
                chain = chain[:i + 1]  # nothing is chained after a dimension-reducing step
                break
        op = {'op': 'batch_pool', 'frames': frames, 'chain': chain, 'export': ch.choice(['items', 'to_frame', 'to_bus', 'items_partial', 'to_frame_axis1']),
              'source': ch.choice(['from_frames', 'items_gen', 'bus_items', 'items_eq_labels', 'items_own_labels']), 'dirty_go': ch.chance(0.25),
              'none_at': ch.randint(0, n - 1), 'eq_off': ch.randint(0, 7), 'except_any': ch.chance(0.3), 'tf_auto': ch.chance(0.25)}
        op.update(self._pool_params(ch, n))
        if op.get('fail_at') is not None:
            op['fail_at'] = ch.randint(0, n - 1)
        if op['export'] == 'items_partial':
            op['take'] = ch.randint(0, n)
            op.pop('fail_at', None)  # laziness differs by design: a task the consumer never reaches may or may not run
        return op

    def gen_zip_pool(self, ch):
        n = ch.randint(1, 5)
        frames = [gen_frame(ch, 'z%d' % i, nr=ch.randint(1, 4), nc=ch.randint(1, 3), hier=ch.chance(0.4)) for i in range(n)]
        op = {'op': 'zip_pool', 'frames': frames, 'cfgmap': ch.chance(0.6), 'fmt': ch.choice(['zip_pickle', 'zip_csv', 'zip_tsv']),
              'wk': ch.choice([None, 1, 2, 4]), 'wc': ch.randint(1, n + 1), 'rk': ch.choice([None, 1, 2, 4]), 'rc': ch.randint(1, n + 1),
              'mp': ch.choice([None, None, 1, 2]), 'access': ch.choice(['values', 'items', 'list', 'one_by_one']),
              'lenc': ch.chance(0.25), 'nocols': ch.chance(0.2)}
        if ch.chance(self.config['p_fault']):
            op['crash_at'] = ch.randint(0, n)
            op['crash_in'] = ch.choice(['write', 'read'])
        return op

    # ------------------------------------------------------------------ helpers
    def _sim(self, dec_, op, crash=True):
        sim = sx.PoolSim(dec_, self.stats, p_early=self.config['p_early'],
                         crash_at=op.get('crash_at') if crash else None)
        sx.CURRENT['sim'] = sim
        return sim

    def _done(self, sim):
        sx.CURRENT['sim'] = None
        self.stats['pool:tasks'] += sim.completions
        self.interleavings.add(h64(canon(sim.order)))
        if sim.order != sorted(sim.order):
            self.probe('out-of-order-completion')
        if sim.max_in_flight > 1:
            self.probe('several-tasks-in-flight')
        self.nstates += 1

    def apply(self, op, dec_):
        import warnings
        self.opstat(op['op'])
        with warnings.catch_warnings():
            warnings.simplefilter('ignore')
            return getattr(self, 'do_' + op['op'])(op, dec_)

    def _cls(self, op):
        return ('threads' if op.get('threads') else 'processes') + (',chunksize>1' if op.get('chunk', 1) > 1 and not op.get('threads') else '')

    def _compare(self, site, op, seq, par, sim):
        '''seq, par: ('ok', container) | ('raise', exc). The statement: equal results; a failing task surfaces as an error.'''
        cls = self._cls(op)
        if seq[0] == 'raise':
            if par[0] == 'ok':
                raise Violation('C18.fail', site, cls, f'sequential form raised {type(seq[1]).__name__} but the pool form returned {self._short(par[1])}')
            # which failing task is met first may differ (a chained Batch evaluates stage by stage in the pool form and
            # frame by frame in the sequential form), so only "raises" is required, not the same exception
            self.fault('task-failure-surfaced')
            return 'both-raise'
        if par[0] == 'raise':
            e = par[1]
            if op.get('unpicklable'):
                self.fault('unpicklable-surfaced')
                return 'unpicklable-raise'
            if sim.crashed and isinstance(e, sx.BrokenProcessPool):
                self.fault('worker-crash-surfaced')
                return 'crash-raise'
            raise Violation('C18.equal', site, cls, f'pool form raised {type(e).__name__}: {e} where the sequential form returned')
        a, b = self._snap(seq[1]), self._snap(par[1])
        if a != b:
            raise Violation('C18.equal', site, cls, 'pool result differs from sequential: ' + first_diff(a, b) + f' | order={sim.order[:12]}')
        return 'equal'

    def _short(self, x):
        return repr(x)[:200]

    def _snap(self, x):
        sf = self.sf
        if isinstance(x, (sf.Frame, sf.Series)):
            return snap(x)
        if isinstance(x, list):
            return [self._snap(v) for v in x]
        if isinstance(x, tuple):
            return tuple(self._snap(v) for v in x)
        if isinstance(x, sf.Bus):
            return [(norm(k), snap(v)) for k, v in x.items()]
        return norm(x)

    # ------------------------------------------------------------------ iterator interfaces
    def _container(self, op):
        sf = self.sf
        ct = op['ctype']
        sp = op['spec']
        if ct == 'frame':
            return build_frame(sf, sp)
        if ct == 'series':
            index = sf.IndexHierarchy.from_labels([tuple(t) for t in sp['index']]) if sp['hier'] and sp['index'] else sf.Index(sp['index'] if not sp['hier'] else [])
            return sf.Series(sp['values'], index=index, name=sp['name'])
        if ct == 'index':
            return sf.Index(sp['labels'])
        return sf.Bus.from_frames([build_frame(sf, s) for s in sp['frames']])

    def _node(self, c, op):
        iface = op['iface']
        ct = op['ctype']
        attr = getattr(c, iface)
        if ct == 'frame':
            if iface.startswith(('iter_array', 'iter_series')):
                return attr(axis=op.get('axis', 0))
            if iface.startswith('iter_tuple'):
                if op.get('named_tuple'):
                    return attr(axis=op.get('axis', 0))  # default constructor: a NamedTuple class made on the fly from the labels
                return attr(axis=op.get('axis', 0), constructor=tuple)
            if iface.startswith('iter_group_labels'):
                return attr(0, axis=op.get('axis', 0) * 0)
            if iface.startswith('iter_group'):
                return attr('G')
            if iface.startswith('iter_window'):
                return attr(size=op.get('size', 2))
            return attr()
        if ct == 'series':
            if iface.startswith('iter_group_labels'):
                return attr(0)
            if iface.startswith('iter_window'):
                return attr(size=op.get('size', 2))
            return attr()
        return attr()

    def do_iter_pool(self, op, dec_):
        sf = self.sf
        st, c = call(self._container, op)
        if st == 'raise':
            return 'skip-build'
        iface = op['iface']
        items = iface.endswith('_items')
        site = f"{type(c).__name__}.{iface}.apply_pool"
        # which input fails (if any): computed from the sequential stream so that it is a real task
        fail_on = None
        st, node = call(self._node, c, op)
        if st == 'raise':
            return 'skip-node:' + type(node).__name__
        if op.get('fail_at') is not None:
            fn0 = pf.f_item_seq if items else pf.f_value
            st, ds = call(lambda: [fn0(*kv) if items else fn0(kv) for kv in node])
            if st == 'ok' and ds:
                fail_on = ds[op['fail_at'] % len(ds)]
                self.fault('task-raises')
        if items:
            fseq = functools.partial(pf.f_item_seq, fail_on=fail_on)
            fpar = functools.partial(pf.f_item_pool, fail_on=fail_on)
        else:
            fseq = fpar = functools.partial(pf.f_value, fail_on=fail_on)
        if op.get('unpicklable'):
            inner = fpar
            fpar = lambda *a: inner(*a)  # noqa: E731 - deliberately unpicklable
        seq = call(lambda: self._node(c, op).apply(fseq))
        sim = self._sim(dec_, op)
        try:
            par = call(lambda: self._node(c, op).apply_pool(fpar, max_workers=op['k'], chunksize=op['chunk'], use_threads=op['threads']))
        finally:
            self._done(sim)
        if isinstance(par[1], (HarnessError, Violation)):
            raise par[1]
        out = self._compare(site, op, seq, par, sim)
        # pure-Python expectation for the simple interfaces (labels and pairing)
        if out == 'equal' and iface in ('iter_element', 'iter_element_items') and op['ctype'] == 'series':
            sp = op['spec']
            exp_labels = [tuple(t) for t in sp['index']] if sp['hier'] else list(sp['index'])
            got = par[1]
            gl = [tuple(x) if isinstance(x, (tuple, list, np.ndarray)) else x for x in (got.index.values.tolist() if len(got) else [])]
            if norm_list([tuple(x) if isinstance(x, list) else x for x in gl]) != norm_list(exp_labels):
                raise Violation('C18.equal', site, self._cls(op), f'labels {gl!r} != {exp_labels!r}')
            for lab, v, cell in zip(exp_labels, got.values.tolist(), sp['values']):
                want = ('K' + pf._n(lab) + '>' if items else '') + 'E' + pf._n(cell)
                if v != want:
                    raise Violation('C18.equal', site, self._cls(op), f'label {lab!r} paired with {v!r}, expected {want!r}')
        return out

    # ------------------------------------------------------------------ pre-emptive thread mode
    def _shared(self, op):
        sf = self.sf
        ih = sf.IndexHierarchyGO.from_labels([('a', 1), ('a', 2), ('b', 1)])
        for i in range(op.get('grow_ih', 0)):
            ih.append(('c', i)) if i else ih.append(('b', 2))
        ixgo = sf.IndexGO(('x', 'y'))
        for i in range(op.get('grow_ix', 0)):
            ixgo.append('z%d' % i)
        return ih, ixgo

    def do_thread_pool(self, op, dec_):
        from sim.baton import Baton
        import static_frame
        sf = self.sf
        st, c = call(self._container, op)
        if st == 'raise':
            return 'skip-build'
        site = f"{type(c).__name__}.{op['iface']}.apply_pool(threads)"

        def fn_for():
            if op['func'] == 'build_and_probe':
                return functools.partial(pf.build_and_probe, n=op.get('n', 3))
            if op['func'] == 'alloc_probe':
                return functools.partial(pf.alloc_probe, sizes=tuple(op.get('sizes', (3, 9, 5))))
            if op['func'] == 'sample_in_task':
                return functools.partial(pf.sample_in_task, n=op.get('n', 2))
            if op['func'] in ('probe_bus', 'probe_bus_direct', 'probe_bus_whole', 'probe_bus_iloc'):
                # one lazily loaded, possibly LRU-bounded Bus shared by all tasks
                if self.dir is None:
                    self.dir = tempfile.mkdtemp(prefix='sfpool_', dir='/dev/shm' if os.path.isdir('/dev/shm') else None)
                frames = [build_frame(sf, gen_frame_fixed(i)) for i in range(3)]
                fp = os.path.join(self.dir, 'shared_bus.zip')
                if not os.path.exists(fp):
                    sf.Bus.from_frames(frames).to_zip_pickle(fp)
                bus = sf.Bus.from_zip_pickle(fp, max_persist=op.get('mp'))
                return functools.partial(getattr(pf, op['func']), bus=bus, labels=tuple(f.name for f in frames))
            return functools.partial(pf.probe_shared, shared=self._shared(op))
        self.reset_globals()
        seq = call(lambda: self._node(c, op).apply(fn_for()))
        self.reset_globals()
        prefixes = (os.path.dirname(os.path.abspath(static_frame.__file__)) + os.sep, os.path.abspath(pf.__file__))
        baton = Baton(dec_, op.get('p', 0.05), self.stats, prefixes, hot_weight=op.get('hw', 1), stall_gap=op.get('stall', 0), stall_after_release=op.get('rel', False))
        sim = sx.PoolSim(dec_, self.stats, p_early=0.0, baton=baton)
        sx.CURRENT['sim'] = sim
        from sim.baton import patch_locks, unpatch_locks
        undo = patch_locks(baton)
        try:
            par = call(lambda: self._node(c, op).apply_pool(fn_for(), max_workers=op['k'], use_threads=True))
        finally:
            unpatch_locks(undo)
            baton.close()
            self._done(sim)
            self.interleavings.add(baton.trace_sig)
            self.stats['pool:thread-switches'] += baton.switches
            self.stats['pool:traced-lines'] += baton.lines
            self.stats['pool:traced-lines-in-state-writing-functions'] += baton.hot_lines
            self.stats['fault:thread-stalled-inside-state-writing-function'] += baton.stalls
            if baton.switches:
                self.probe('pre-empted-inside-task')
        if isinstance(par[1], (HarnessError, Violation)):
            raise par[1]
        if baton.error is not None:
            raise baton.error
        if seq[0] == 'raise':
            return 'seq-raise:' + type(seq[1]).__name__
        cls = op['func']
        if par[0] == 'raise':
            raise Violation('C18.thread', site, cls, f'under pre-emptive threads the pool form raised {type(par[1]).__name__}: {par[1]}')
        a, b = self._snap(seq[1]), self._snap(par[1])
        if a != b:
            raise Violation('C18.thread', site, cls, 'result under pre-emptive threads differs from sequential: ' + first_diff(a, b))
        return 'equal'

    def do_thread_batch(self, op, dec_):
        '''Batch(max_workers, use_threads=True) under the baton: tasks build containers and read shared caches.'''
        from sim.baton import Baton, patch_locks, unpatch_locks
        import static_frame
        sf = self.sf
        site = f"Batch.{op['via']}(threads).{op['export']}"

        def run(workers):
            frames = [build_frame(sf, s) for s in op['frames']]
            shared = self._shared(op) if op.get('shared') else None
            kw = {'max_workers': op['k'], 'use_threads': True} if workers else {}
            b = sf.Batch.from_frames(frames, **kw)
            if op['via'] == 'apply':
                b = b.apply(functools.partial(pf.frame_build_probe, n=op.get('n', 3), shared=shared))
            elif op['via'] == 'apply_items':
                b = b.apply_items(functools.partial(_probe_items, n=op.get('n', 3), shared=shared))
            elif op['via'] == 'sample':
                b = b.sample(1, seed=11)
            else:
                b = b.iloc[:1].apply(functools.partial(pf.frame_build_probe, n=op.get('n', 3), shared=shared))
            if op['export'] == 'to_frame':
                return b.to_frame()
            if op['export'] == 'to_bus':
                return b.to_bus()
            return list(b.items())
        self.reset_globals()
        seq = call(run, False)
        self.reset_globals()
        prefixes = (os.path.dirname(os.path.abspath(static_frame.__file__)) + os.sep, os.path.abspath(pf.__file__))
        baton = Baton(dec_, op.get('p', 0.05), self.stats, prefixes, hot_weight=op.get('hw', 1), stall_gap=op.get('stall', 0), stall_after_release=op.get('rel', False))
        sim = sx.PoolSim(dec_, self.stats, p_early=0.0, baton=baton)
        sx.CURRENT['sim'] = sim
        undo = patch_locks(baton)
        try:
            par = call(run, True)
        finally:
            unpatch_locks(undo)
            baton.close()
            self._done(sim)
            self.interleavings.add(baton.trace_sig)
            self.stats['pool:thread-switches'] += baton.switches
            self.stats['pool:traced-lines'] += baton.lines
            self.stats['pool:traced-lines-in-state-writing-functions'] += baton.hot_lines
            self.stats['fault:thread-stalled-inside-state-writing-function'] += baton.stalls
            if baton.switches:
                self.probe('pre-empted-inside-task')
        if isinstance(par[1], (HarnessError, Violation)):
            raise par[1]
        if baton.error is not None:
            raise baton.error
        if seq[0] == 'raise':
            return 'seq-raise:' + type(seq[1]).__name__
        cls = 'batch' + ('+shared' if op.get('shared') else '')
        if par[0] == 'raise':
            raise Violation('C18.thread', site, cls, f'under pre-emptive threads the Batch raised {type(par[1]).__name__}: {par[1]}')
        a, b = self._snap(seq[1]), self._snap(par[1])
        if a != b:
            raise Violation('C18.thread', site, cls, 'Batch result under pre-emptive threads differs from sequential: ' + first_diff(a, b))
        return 'equal'

    # ------------------------------------------------------------------ Batch
    def _batch_chain(self, b, chain, fail_label, has_workers, none_label=None):
        sf = self.sf
        for step in chain:
            if step == 'apply':
                b = b.apply(functools.partial(pf.frame_fn, fail_on=fail_label))
            elif step == 'apply_items':
                b = b.apply_items(functools.partial(pf.frame_fn_items, fail_on=fail_label))
            elif step == 'apply_series':
                b = b.apply(functools.partial(pf.frame_to_series, fail_on=fail_label))
            elif step == 'apply_element':
                b = b.apply(functools.partial(pf.frame_to_element, fail_on=fail_label))
            elif step == 'apply_list':
                b = b.apply(functools.partial(pf.frame_to_list, fail_on=fail_label))
            elif step == 'apply_ragged':
                b = b.apply(functools.partial(pf.frame_to_ragged, fail_on=fail_label))
            elif step == 'apply_mixed':
                b = b.apply(functools.partial(pf.frame_mixed_dim, fail_on=fail_label))
            elif step == 'iloc_nocols':
                b = b.iloc[:, 0:0]  # every result keeps its rows and has no column
            elif step == 'apply_except':
                b = b.apply_except(functools.partial(pf.frame_fn, fail_on=fail_label), Exception if self._except_any else pf.TaskFailure)
            elif step == 'apply_items_except':
                b = b.apply_items_except(functools.partial(pf.frame_fn_items, fail_on=fail_label), pf.TaskFailure)
            elif step == 'iloc':
                b = b.iloc[:2]
            elif step == 'loc_cols':
                b = b.loc[:, ['A']]
            elif step == 'mul':
                b = b * 2
            elif step == 'sum':
                b = b.sum()
            elif step == 'min':
                b = b.min()
            elif step == 'getitem':
                b = b['A']
            elif step == 'head':
                b = b.head(1)
            elif step == 'isna':
                b = b.isna()
            elif step == 'rename':
                b = b.rename('renamed')
            elif step == 'astype':
                b = b.astype(float)
            elif step == 'sort_index':
                b = b.sort_index(ascending=False)
            elif step == 'transpose':
                b = b.transpose()
            elif step == 'cumsum':
                b = b.cumsum()
            elif step == 'drop':
                b = b.drop.iloc[0]
            elif step == 'neg':
                b = -b
            elif step == 'drop_getitem':
                b = b.drop['A']  # by column label
            elif step == 'drop_loc':
                b = b.drop.loc[10]  # by row label
            elif step == 'rsub':
                b = 1000 - b  # reflected forms: the operator object itself crosses the pool boundary
            elif step == 'rmul':
                b = 3 * b
            elif step == 'rfloordiv':
                b = 100000 // (b + 1)
            elif step == 'loc_rows':
                b = b.iloc[[0]]
            elif step == 'tail':
                b = b.tail(1)
            elif step == 'apply_none':
                b = b.apply(functools.partial(pf.frame_none_for, none_on=none_label, fail_on=fail_label))
            elif step == 'apply_none_except':
                b = b.apply_except(functools.partial(pf.frame_none_for, none_on=none_label, fail_on=fail_label), pf.TaskFailure)
            elif step == 'apply_grow':
                b = b.apply(functools.partial(pf.frame_grow_in_task, fail_on=fail_label))
            elif step == 'sum_noskip':
                b = b.sum(skipna=False)
            elif step == 'mean':
                b = b.mean()
            elif step == 'max':
                b = b.max(axis=1)
            elif step == 'fillna':
                b = b.fillna(-1)
            elif step == 'dropna':
                b = b.dropna()
            elif step == 'isna':
                b = b.isna()
            elif step == 'count':
                b = b.count()
        return b

    EQ_LABELS = [1, True, 2, 2.0, 'q', 'q', 0, False]

    def _batch_labels(self, op):
        names = [s['name'] for s in op['frames']]
        if op.get('source') == 'items_eq_labels':
            off = op.get('eq_off', 0)
            return [self.EQ_LABELS[(off + i) % len(self.EQ_LABELS)] for i in range(len(names))]
        if op.get('source') == 'items_own_labels':
            # the Batch's own labels, different from the names of the Frames it holds (and in another order)
            return ['L%d' % (len(names) - i) for i in range(len(names))]
        return names

    def _batch_frame(self, spec, op):
        sf = self.sf
        f = build_frame(sf, spec)
        if op.get('dirty_go'):
            # a grow-only frame that has just been grown and not read since: its columns cache is cold
            g = f.to_frame_go()
            g['late'] = list(range(len(g.index)))
            return g if op.get('source') != 'bus_items' else g.to_frame()  # a Bus holds static Frames
        return f

    def _batch_run(self, op, workers):
        sf = self.sf
        frames = [self._batch_frame(s, op) for s in op['frames']]
        kw = {}
        if workers:
            kw = {'max_workers': op['k'], 'chunksize': op['chunk'], 'use_threads': op['threads']}
        src = op.get('source', 'from_frames')
        if src == 'from_frames':
            b = sf.Batch.from_frames(frames, **kw)
        elif src == 'items_gen':
            b = sf.Batch(((f.name, f) for f in frames), **kw)
        elif src in ('items_eq_labels', 'items_own_labels'):
            b = sf.Batch(zip(self._batch_labels(op), frames), **kw)
        else:
            b = sf.Batch(sf.Bus.from_frames(frames).items(), **kw)
        fail_label = None
        if op.get('fail_at') is not None:
            fail_label = op['frames'][op['fail_at'] % len(op['frames'])]['name']
        none_label = op['frames'][op.get('none_at', 0) % len(op['frames'])]['name']
        self._except_any = bool(op.get('except_any'))
        b = self._batch_chain(b, op['chain'], fail_label, workers, none_label)
        ex = op['export']
        if ex == 'items':
            return [(k, v) for k, v in b.items()]
        if ex == 'items_partial':
            out = []
            it = iter(b.items())
            for _ in range(op.get('take', 1)):
                try:
                    out.append(next(it))
                except StopIteration:
                    break
            del it
            return out
        if ex == 'to_frame':
            # optionally relabel the axis that is not extended (auto-integer labels): an argument of the exporter, not of the results
            return b.to_frame(index=sf.IndexAutoFactory) if op.get('tf_auto') else b.to_frame()
        if ex == 'to_frame_axis1':
            return b.to_frame(axis=1, columns=sf.IndexAutoFactory) if op.get('tf_auto') else b.to_frame(axis=1)
        return b.to_bus()

    # ------------------------------------------------------------------ C19.batch: Batch vs per-label application
    def _direct(self, op):
        '''{label: result of applying the chained operation directly to that label's Frame}; labels whose
        application raises the silenced exception are absent, any other failure propagates.'''
        sf = self.sf
        fail_label = None
        if op.get('fail_at') is not None:
            fail_label = op['frames'][op['fail_at'] % len(op['frames'])]['name']
        out = []
        none_label = op['frames'][op.get('none_at', 0) % len(op['frames'])]['name']
        for spec, label in zip(op['frames'], self._batch_labels(op)):
            c = self._batch_frame(spec, op)
            dropped = False
            for step in op['chain']:
                try:
                    if step == 'apply':
                        c = pf.frame_fn(c, fail_on=fail_label)
                    elif step == 'apply_items':
                        c = pf.frame_fn_items(label, c, fail_on=fail_label)
                    elif step == 'apply_series':
                        c = pf.frame_to_series(c, fail_on=fail_label)
                    elif step == 'apply_element':
                        c = pf.frame_to_element(c, fail_on=fail_label)
                    elif step == 'apply_list':
                        c = pf.frame_to_list(c, fail_on=fail_label)
                    elif step == 'apply_ragged':
                        c = pf.frame_to_ragged(c, fail_on=fail_label)
                    elif step == 'apply_mixed':
                        c = pf.frame_mixed_dim(c, fail_on=fail_label)
                    elif step == 'iloc_nocols':
                        c = c.iloc[:, 0:0]
                    elif step == 'apply_except':
                        c = pf.frame_fn(c, fail_on=fail_label)
                    elif step == 'apply_items_except':
                        c = pf.frame_fn_items(label, c, fail_on=fail_label)
                    elif step == 'iloc':
                        c = c.iloc[:2]
                    elif step == 'loc_cols':
                        c = c.loc[:, ['A']]
                    elif step == 'mul':
                        c = c * 2
                    elif step == 'sum':
                        c = c.sum()
                    elif step == 'min':
                        c = c.min()
                    elif step == 'getitem':
                        c = c['A']
                    elif step == 'head':
                        c = c.head(1)
                    elif step == 'rename':
                        pass  # Batch.rename names the Batch, not the frames
                    elif step == 'sort_index':
                        c = c.sort_index(ascending=False)
                    elif step == 'transpose':
                        c = c.transpose()
                    elif step == 'cumsum':
                        c = c.cumsum()
                    elif step == 'drop':
                        c = c.drop.iloc[0]
                    elif step == 'neg':
                        c = -c
                    elif step == 'drop_getitem':
                        c = c.drop['A']
                    elif step == 'drop_loc':
                        c = c.drop.loc[10]
                    elif step == 'rsub':
                        c = 1000 - c
                    elif step == 'rmul':
                        c = 3 * c
                    elif step == 'rfloordiv':
                        c = 100000 // (c + 1)
                    elif step == 'loc_rows':
                        c = c.iloc[[0]]
                    elif step == 'tail':
                        c = c.tail(1)
                    elif step == 'apply_none':
                        c = pf.frame_none_for(c, none_on=none_label, fail_on=fail_label)
                    elif step == 'apply_none_except':
                        c = pf.frame_none_for(c, none_on=none_label, fail_on=fail_label)
                    elif step == 'apply_grow':
                        c = pf.frame_grow_in_task(c, fail_on=fail_label)
                    elif step == 'sum_noskip':
                        c = c.sum(skipna=False)
                    elif step == 'mean':
                        c = c.mean()
                    elif step == 'max':
                        c = c.max(axis=1)
                    elif step == 'fillna':
                        c = c.fillna(-1)
                    elif step == 'dropna':
                        c = c.dropna()
                    elif step == 'isna':
                        c = c.isna()
                    elif step == 'count':
                        c = c.count()
                except pf.TaskFailure:
                    if step in ('apply_except', 'apply_items_except', 'apply_none_except'):
                        dropped = True
                        break
                    raise
                except Exception:
                    if step == 'apply_except' and op.get('except_any'):
                        dropped = True  # this stage silences every Exception
                        break
                    raise
                if not isinstance(c, (sf.Frame, sf.Series)):
                    # an element is presented as a one-cell Series; a sized element (list, nested list) is placed in an object
                    # cell by hand - the reference must not depend on the library routine the Batch itself uses
                    if hasattr(c, '__len__') and not isinstance(c, (str, bytes)):
                        cell = np.empty(1, dtype=object)
                        cell[0] = c
                        c = sf.Series(cell, index=(None,))
                    else:
                        c = sf.Series.from_element(c, index=(None,))
            if not dropped:
                out.append((label, c))
        return out

    def do_batch_direct(self, op, dec_):
        '''C19.batch: dict(batch.op.items()) == {label: op(frame)} and the exporter concatenates exactly those.'''
        sf = self.sf
        if 'apply_except' in op['chain'] or 'apply_items_except' in op['chain'] or 'apply_none_except' in op['chain']:
            op = dict(op)
            op['chunk'] = 1
        workers = bool(op.get('use_pool'))
        site = 'Batch.' + op['export']
        cls = ('pool' if workers else 'sequential') + ',' + '>'.join(sorted(set(op['chain'])))[:0] + ('threads' if op.get('threads') else 'processes') if workers else 'sequential'
        op2 = dict(op)
        op2.pop('crash_at', None)
        op2.pop('unpicklable', None)
        ref = call(self._direct, op2)
        op_items = dict(op2)
        op_items['export'] = 'items'
        sim = self._sim(dec_, op2, crash=False)
        try:
            got = call(self._batch_run, op_items, workers)
            exp = call(self._batch_run, op2, workers) if op2['export'] != 'items' else got
        finally:
            self._done(sim)
        for x in (got, exp):
            if isinstance(x[1], (HarnessError, Violation)):
                raise x[1]
        if ref[0] == 'raise':
            if got[0] == 'ok':
                raise Violation('C19.batch', site, cls, f'applying the operation to the frames raises {type(ref[1]).__name__} but the Batch returned results')
            return 'both-raise'
        if got[0] == 'raise':
            raise Violation('C19.batch', site, cls, f'Batch raised {type(got[1]).__name__}: {got[1]} where per-frame application succeeds')
        a = [(norm(k), snap(v)) for k, v in ref[1]]
        b = [(norm(k), snap(v)) for k, v in got[1]]
        if a != b:
            raise Violation('C19.batch', site, cls, 'Batch items differ from per-frame application: ' + first_diff(a, b))
        self.stats['batch:direct-equal'] += 1
        # exporters: exactly those results, concatenated
        ex = op2['export']
        if op2.get('source') == 'items_eq_labels':
            return 'equal'  # exporters need unique labels; labels equal by Python equality are only followed through items()
        if ex in ('to_bus',) and exp[0] == 'ok':
            c = [(norm(k), snap(v)) for k, v in exp[1].items()]
            if c != a:
                raise Violation('C19.batch', 'Batch.to_bus', cls, 'to_bus holds different frames: ' + first_diff(a, c))
        if ex in ('to_frame', 'to_frame_axis1') and ref[1]:
            axis = 0 if ex == 'to_frame' else 1
            res = ref[1]
            all_series = all(isinstance(v, sf.Series) for _, v in res)
            all_frames = all(isinstance(v, sf.Frame) for _, v in res)
            want = None
            if (not all_series and not all_frames and axis == 0 and not op2.get('tf_auto')
                    and all(isinstance(v, (sf.Series, sf.Frame)) and 0 not in v.shape for _, v in res)):
                # results of mixed dimensionality: the reference is the library's own concatenation of exactly those results
                st_w, want_f = call(lambda: sf.Frame.from_concat_items(res, axis=0))
                if st_w == 'ok':
                    if exp[0] == 'raise':
                        raise Violation('C19.batch', 'Batch.' + ex, cls, f'exporter raised {type(exp[1]).__name__}: {exp[1]} for results of mixed dimensionality')
                    sa, sb = snap(want_f), snap(exp[1])
                    sa.pop('name', None), sb.pop('name', None)
                    if sa != sb:
                        raise Violation('C19.batch', 'Batch.' + ex, cls, 'export of mixed-dimensional results is not their concatenation: ' + first_diff(sa, sb))
                    self.stats['batch:export-checked'] += 1
            nocols = all_frames and axis == 0 and all(v.shape[1] == 0 and v.shape[0] > 0 for _, v in res)
            if nocols:
                # results that kept their rows and have no column: the export has all the rows (under the outer labels) and no column
                if exp[0] == 'raise':
                    raise Violation('C19.batch', 'Batch.' + ex, cls, f'exporter raised {type(exp[1]).__name__}: {exp[1]} for column-less results')
                rows_want = sum(v.shape[0] for _, v in res)
                if tuple(exp[1].shape) != (rows_want, 0):
                    raise Violation('C19.batch', 'Batch.' + ex, cls, f'export of column-less results has shape {tuple(exp[1].shape)}, expected {(rows_want, 0)}')
                self.stats['batch:export-checked'] += 1
            if any(0 in v.shape for _, v in res):
                all_series = all_frames = False  # concatenation of (other) zero-sized results is C11's territory
            if all_series:
                idx0 = snap(res[0][1])['index']['labels']
                if all(snap(v)['index']['labels'] == idx0 for _, v in res) and len(set(map(repr, idx0))) == len(idx0):
                    labels = [norm(k) for k, _ in res]
                    cells = [snap(v)['cells'] for _, v in res]
                    want = {'outer': labels, 'inner': idx0, 'cells': cells if axis == 0 else [list(r) for r in zip(*cells)], 'axis': axis}
            elif all_frames:
                col0 = snap(res[0][1])['columns']['labels'] if axis == 0 else snap(res[0][1])['index']['labels']
                same = all((snap(v)['columns']['labels'] if axis == 0 else snap(v)['index']['labels']) == col0 for _, v in res)
                if same:
                    outer = []
                    rows = []
                    for k, v in res:
                        sv = snap(v)
                        own = sv['index']['labels'] if axis == 0 else sv['columns']['labels']
                        nr = len(sv['index']['labels'])
                        body = [[c[1][i] for c in sv['cols']] for i in range(nr)]
                        if axis == 1:
                            body = [list(r) for r in zip(*body)] if body else []
                        own_hier = (v.index if axis == 0 else v.columns).depth > 1  # a tuple held by a flat index is one label
                        for lab, row in zip(own, body):
                            outer.append((norm(k),) + lab if (own_hier and isinstance(lab, tuple)) else (norm(k), lab))
                            rows.append(row)
                    want = {'outer': outer, 'inner': col0, 'cells': rows if axis == 0 else [list(r) for r in zip(*rows)], 'axis': axis}
            if want is not None and op2.get('tf_auto'):
                want['outer'] = list(range(len(want['outer'])))  # the exporter was asked for auto-integer labels along the extended axis
            if want is not None:
                if exp[0] == 'raise':
                    raise Violation('C19.batch', 'Batch.' + ex, cls, f'exporter raised {type(exp[1]).__name__}: {exp[1]}')
                sv = snap(exp[1])
                nr = len(sv['index']['labels'])
                body = [[c[1][i] for c in sv['cols']] for i in range(nr)]
                gi, gc = sv['index']['labels'], sv['columns']['labels']
                ei, ec = (want['outer'], want['inner']) if axis == 0 else (want['inner'], want['outer'])
                if gi != ei or gc != ec or body != want['cells']:
                    raise Violation('C19.batch', 'Batch.' + ex, cls, 'exported frame is not the concatenation of the per-label results: '
                                    + first_diff({'index': ei, 'columns': ec, 'cells': want['cells']}, {'index': gi, 'columns': gc, 'cells': body}))
                self.stats['batch:export-checked'] += 1
        return 'equal'

    def do_batch_pool(self, op, dec_):
        if 'apply_except' in op['chain'] or 'apply_items_except' in op['chain'] or 'apply_none_except' in op['chain']:
            op = dict(op)
            op['chunk'] = 1  # documented: apply_except idioms need chunksize 1
        site = 'Batch(' + ('>'.join(op['chain'])) + ').' + op['export']
        site = 'Batch.' + op['export']
        if op.get('fail_at') is not None:
            self.fault('task-raises')
        if op.get('unpicklable'):
            op = dict(op)
            op.pop('unpicklable')
        seq = call(self._batch_run, op, False)
        sim = self._sim(dec_, op)
        try:
            par = call(self._batch_run, op, True)
        finally:
            self._done(sim)
        if isinstance(par[1], (HarnessError, Violation)):
            raise par[1]
        if op['export'] == 'items_partial' and seq[0] == 'ok' and par[0] == 'raise' and not isinstance(par[1], sx.BrokenProcessPool):
            # the pool form evaluates every frame eagerly, the sequential generator only those consumed: a frame the
            # consumer never reached may legitimately fail in the pool form only
            self.stats['batch:eager-failure-beyond-consumed-prefix'] += 1
            return 'eager-raise'
        out = self._compare(site, op, seq, par, sim)
        if out == 'equal':
            self.stats['batch:chain-' + str(len(op['chain']))] += 1
        return out

    # ------------------------------------------------------------------ zipped stores with workers
    def do_zip_pool(self, op, dec_):
        sf = self.sf
        if self.dir is None:
            self.dir = tempfile.mkdtemp(prefix='sfpool_', dir='/dev/shm' if os.path.isdir('/dev/shm') else None)
        frames = [build_frame(sf, s) for s in op['frames']]
        fmt = op['fmt']
        site = f'StoreZip({fmt}).workers'

        def cfg(wk, wc, rk, rc):
            def one(depth):
                extra = {}
                if op.get('lenc') and fmt != 'zip_pickle':
                    extra.update(label_encoder=str.upper, label_decoder=str.lower)  # the member name differs from the label
                if op.get('nocols') and fmt != 'zip_pickle':
                    extra.update(columns_depth=0, include_columns=False)  # settings that are falsy and not the default
                return sf.StoreConfig(index_depth=depth, write_max_workers=wk, write_chunksize=wc, read_max_workers=rk, read_chunksize=rc, **extra)
            depths = {s['name']: (2 if s['hier'] else 1) for s in op['frames']}
            if op.get('cfgmap') or len(set(depths.values())) > 1:
                # per-label configuration (index depth differs per frame); worker settings must match the default
                return sf.StoreConfigMap({k: one(d) for k, d in depths.items()}, default=one(1))
            return one(next(iter(depths.values())))

        def run(workers, path):
            c = cfg(op['wk'], op['wc'], op['rk'], op['rc']) if workers else cfg(None, 1, None, 1)
            bus = sf.Bus.from_frames(frames, config=c)
            if os.path.exists(path):
                os.remove(path)
            getattr(bus, 'to_' + fmt)(path, config=c)
            b2 = getattr(sf.Bus, 'from_' + fmt)(path, config=c, max_persist=op.get('mp'))
            acc = op.get('access', 'values')
            labels = [f.name for f in frames]
            if acc == 'values':
                got = list(zip(labels, list(b2.values)))
            elif acc == 'items':
                got = list(b2.items())
            elif acc == 'list':
                sel = b2[labels[::-1]] if len(labels) > 1 else b2[labels]
                got = list(sel.items())
            else:
                got = [(l, b2[l]) for l in reversed(labels)]
            return [(norm(k), snap_frame(v)) for k, v in got]
        seq = call(run, False, os.path.join(self.dir, 'seq.zip'))
        op2 = dict(op)
        op2['threads'] = False
        op2['chunk'] = max(op['wc'], op['rc'])
        sim = self._sim(dec_, op)
        if op.get('crash_at') is not None:
            self.fault('worker-crash-armed')
        try:
            par = call(run, True, os.path.join(self.dir, 'par.zip'))
        finally:
            self._done(sim)
        if isinstance(par[1], (HarnessError, Violation)):
            raise par[1]
        if seq[0] == 'raise':
            return 'seq-raise:' + type(seq[1]).__name__
        if par[0] == 'raise':
            if sim.crashed and isinstance(par[1], sx.BrokenProcessPool):
                self.fault('worker-crash-surfaced')
                return 'crash-raise'
            raise Violation('C18.equal', site, 'processes', f'store with workers raised {type(par[1]).__name__}: {par[1]}')
        if seq[1] != par[1]:
            raise Violation('C18.equal', site, 'processes', 'frames read/written with workers differ: ' + first_diff(seq[1], par[1]) + f' | order={sim.order[:12]}')
        return 'equal'
