'''Reference models for GrowWorld: plain Python lists; no static-frame code computes an expectation.'''
import numpy as np

from sim.snap import norm, norm_list

DATE_UNITS = {
    'IndexDate': 'D', 'IndexDateGO': 'D',
    'IndexYearMonth': 'M', 'IndexYearMonthGO': 'M',
    'IndexYear': 'Y', 'IndexYearGO': 'Y',
    'IndexSecond': 's', 'IndexSecondGO': 's',
}
GO_OF = {'Index': 'IndexGO', 'IndexDate': 'IndexDateGO', 'IndexYearMonth': 'IndexYearMonthGO',
         'IndexYear': 'IndexYearGO', 'IndexSecond': 'IndexSecondGO', 'IndexHierarchy': 'IndexHierarchyGO',
         'Frame': 'FrameGO', 'FrameHE': 'FrameGO'}
STATIC_OF = {v: k for k, v in GO_OF.items() if k != 'FrameHE'}


def is_go(cls):
    return cls.endswith('GO')


def unhashable(x):
    try:
        hash(x)
        return False
    except TypeError:
        return True


class IxM:
    '''Index model (flat or hierarchical). raw: python labels (tuples when hier).'''

    def __init__(self, cls, raw, name=None, depth=1, dt=None, dts=None):
        self.cls = cls
        self.raw = list(raw)
        self.name = name
        self.depth = depth
        self.dt = dt      # learned flat dtype descriptor or None (wildcard)
        self.dts = dts    # learned per-depth dtype descriptors or None (wildcard)

    @property
    def hier(self):
        return self.cls is not None and 'Hierarchy' in self.cls

    @property
    def unit(self):
        return DATE_UNITS.get(self.cls)

    def copy(self, cls=None):
        m = IxM(self.cls if cls is None else cls, list(self.raw), self.name, self.depth, self.dt, self.dts)
        return m

    def labels(self):
        if self.hier:
            return [tuple(norm(v) for v in t) for t in self.raw]
        return norm_list(self.raw)

    def coerce(self, label):
        '''What the index holds after accepting `label` (date classes convert strings).'''
        u = self.unit
        if u is not None:
            return np.datetime64(label, u)
        return label

    def contains(self, label):
        try:
            n = norm(self.coerce(label)) if not self.hier else tuple(norm(v) for v in label)
        except Exception:
            return False
        return n in self.labels()

    def wild(self):
        self.dt = None
        self.dts = None

    def key(self):
        return (self.cls, tuple(self.labels()), norm(self.name))


class FrM:
    def __init__(self, cls, index, columns, data, name=None, dts=None):
        self.cls = cls
        self.index = index       # IxM
        self.columns = columns   # IxM
        self.data = [list(c) for c in data]  # column-major raw cells
        self.name = name
        self.dts = list(dts) if dts is not None else [None] * len(self.data)

    def copy(self, cls=None):
        return FrM(self.cls if cls is None else cls, self.index.copy(), self.columns.copy(),
                   [list(c) for c in self.data], self.name, list(self.dts))

    def key(self):
        return (self.cls, self.index.key(), self.columns.key(), tuple(tuple(norm_list(c)) for c in self.data), norm(self.name))


class SeM:
    def __init__(self, cls, index, cells, name=None, dt=None):
        self.cls = cls
        self.index = index
        self.cells = list(cells)
        self.name = name
        self.dt = dt

    def copy(self):
        return SeM(self.cls, self.index.copy(), list(self.cells), self.name, self.dt)

    def key(self):
        return (self.cls, self.index.key(), tuple(norm_list(self.cells)), norm(self.name))


def expected_index_snap(m, obs):
    '''Snapshot the model predicts, with wildcards (None) filled in from the observed snapshot.'''
    if m.hier:
        e = {'cls': m.cls, 'name': norm(m.name), 'depth': m.depth, 'dts': m.dts, 'labels': m.labels()}
        for k in ('cls', 'dts'):
            if e[k] is None and isinstance(obs, dict):
                e[k] = obs.get(k)
        return e
    e = {'cls': m.cls, 'name': norm(m.name), 'dt': m.dt, 'labels': m.labels()}
    for k in ('cls', 'dt'):
        if e[k] is None and isinstance(obs, dict):
            e[k] = obs.get(k)
    return e


def expected_frame_snap(m, obs):
    cols = []
    ocols = obs.get('cols', []) if isinstance(obs, dict) else []
    for j, c in enumerate(m.data):
        d = m.dts[j]
        if d is None and j < len(ocols):
            d = ocols[j][0]
        cols.append((d, norm_list(c)))
    return {'cls': m.cls if m.cls is not None else obs.get('cls'), 'name': norm(m.name),
            'shape': (len(m.index.raw), len(m.data)),
            'index': expected_index_snap(m.index, obs.get('index') if isinstance(obs, dict) else None),
            'columns': expected_index_snap(m.columns, obs.get('columns') if isinstance(obs, dict) else None),
            'cols': cols}


def expected_series_snap(m, obs):
    return {'cls': m.cls if m.cls is not None else obs.get('cls'), 'name': norm(m.name),
            'index': expected_index_snap(m.index, obs.get('index') if isinstance(obs, dict) else None),
            'dt': m.dt if m.dt is not None else obs.get('dt'), 'cells': norm_list(m.cells),
            'shape': (len(m.cells),)}


def learn_index(m, obs):
    if m.cls is None:
        m.cls = obs['cls']
    if m.hier:
        m.dts = obs.get('dts')
        m.depth = obs.get('depth', m.depth)
    else:
        m.dt = obs.get('dt')


def learn_frame(m, obs):
    if m.cls is None:
        m.cls = obs['cls']
    learn_index(m.index, obs['index'])
    learn_index(m.columns, obs['columns'])
    m.dts = [c[0] for c in obs['cols']]


def learn_series(m, obs):
    if m.cls is None:
        m.cls = obs['cls']
    learn_index(m.index, obs['index'])
    m.dt = obs['dt']


def is_tree_order(tuples):
    '''True iff equal prefixes are contiguous at every depth and all tuples are distinct.'''
    if len(set(tuples)) != len(tuples):
        return False
    if not tuples:
        return True
    depth = len(tuples[0])
    for d in range(1, depth):
        seen = set()
        prev = None
        for t in tuples:
            p = t[:d]
            if p != prev:
                if p in seen:
                    return False
                seen.add(p)
                prev = p
    return True
