'''FrameGO operations of GrowWorld (growth, conversion, derivation) and the C09 frame oracles.'''
import copy
import pickle

import numpy as np
from static_frame.core.index_base import IndexBase

from sim.core import Violation
from sim.snap import norm, norm_list, snap_index, snap_frame, snap_series, first_diff
from worlds.base import Ent, SimulatedFailure, enc, dec, call
from worlds.gmodel import (IxM, FrM, SeM, is_go, unhashable, expected_index_snap, expected_frame_snap,
                           expected_series_snap, learn_index, learn_frame, learn_series, is_tree_order)

NAN = float('nan')
COL_STR = ['A', 'B', 'C', 'D', 'E', 'F', 'G', 'H']
ROW_STR = ['p', 'q', 'r', 's', 't']
VAL_POOLS = {
    'int': [0, 1, 2, 3, 5, 8, -1, 100],
    'float': [0.5, 1.5, -2.25, 3.0, 10.75],
    'str': ['u', 'vv', 'www', 'x'],
    'bool': [True, False],
}
FR_DERIVES = ['to_frame', 'to_frame_go', 'to_frame_he', 'ctor_static', 'ctor_go', 'ctor_he', 'deepcopy', 'pickle',
              'iloc_rows', 'iloc_cols', 'getitem_list', 'getitem_one', 'loc_rows', 'relabel', 'rename',
              'sort_columns', 'sort_index', 'sort_values', 'reindex', 'transpose', 'set_index', 'isna', 'mul',
              'head', 'tail', 'drop_col', 'group_first', 'iter_series_first', 'astype_obj', 'columns_static',
              'index_ref', 'assign', 'roll', 'shift', 'concat_self', 'to_frame_go_then_go', 'columns_copy',
              'iter_array_hold', 'relabel_index', 'fillna', 'round', 'level_add_drop_index', 'level_add_columns', 'level_add_drop_columns',
              'neg', 'abs', 'clip', 'cumsum', 'dropna', 'isin', 'rehierarch_index', 'unset_index', 'bloc_assign', 'level_add_index', 'level_drop_index',
              'level_drop_index', 'drop_row_loc', 'drop_rows_loc_list', 'drop_rows_iloc', 'drop_rows_iloc_none', 'drop_bool_series',
              'relabel_flat_index', 'relabel_flat_columns', 'sample_rows', 'sample_cols']


def index_model_from(ix):
    import static_frame as sf
    cname = type(ix).__name__
    if isinstance(ix, sf.IndexHierarchy):
        return IxM(cname, [tuple(t) for t in ix], ix.name, depth=ix.depth)
    return IxM(cname, list(ix), ix.name)


def col_cells(a):
    if a.dtype.kind in 'Mm':
        return list(a)
    return a.tolist()


def frame_model_from(f):
    m = FrM(type(f).__name__, index_model_from(f.index), index_model_from(f.columns),
            [col_cells(a) for a in f.iter_array(axis=0)], f.name)
    return m


def series_model_from(s):
    return SeM(type(s).__name__, index_model_from(s.index), col_cells(s.values), s.name)


class FrameOps:

    # ------------------------------------------------------------------ generation
    def _gen_cells(self, ch, n, kind=None):
        kind = kind or ch.choice(['int', 'float', 'str', 'bool'])
        pool = VAL_POOLS[kind]
        return [ch.choice(pool) for _ in range(n)]

    def gen_new_fr(self, ch):
        cls = ch.weighted([('FrameGO', 8), ('Frame', 1), ('FrameHE', 0.5)])
        nrows = ch.weighted([(0, 1), (1, 2), (2, 4), (3, 4), (4, 2)])
        ncols = ch.weighted([(0, 1.5), (1, 3), (2, 4), (3, 3), (4, 1)])
        ikind = ch.weighted([('str', 5), ('int', 2), ('date', 1), ('hier', 1.5), ('auto', 1)])
        ckind = ch.weighted([('str', 6), ('int', 1.5), ('hier', 2.5), ('auto', 2), ('date', 1.5)])
        if ikind == 'str':
            index = ROW_STR[:nrows] if ch.chance(0.6) else ch.sample(ROW_STR, nrows)
        elif ikind == 'int':
            index = ch.sample(range(10, 20), nrows)
        elif ikind == 'date':
            index = ['2021-03-%02d' % (i + 1) for i in range(nrows)]
        elif ikind == 'hier':
            index = [[['x', 'y'][i // 2], i % 2 + 1] for i in range(nrows)]
        else:
            index = None
        if ckind == 'str':
            columns = ch.sample(COL_STR, ncols)
        elif ckind == 'int':
            columns = ch.sample(range(5), ncols)
        elif ckind == 'hier':
            columns = [[['a', 'b', 'c'][i // 2], i % 2 + 1] for i in range(ncols)]
        elif ckind == 'date':
            columns = ['2020-01-%02d' % (i + 1) for i in range(ncols)]  # same pool as grow_index.DATES['D'] starts with
        else:
            columns = None
        homog = ch.chance(0.3)
        k0 = ch.choice(['int', 'float', 'str', 'bool'])
        data = [self._gen_cells(ch, nrows, k0 if homog else None) for _ in range(ncols)]
        route = ch.choice(['from_dict', 'from_items', 'from_records', 'array2d', 'via_static'])
        if ckind == 'date':
            route = 'from_items'
        if ckind == 'auto':
            route = 'from_records'
        if ckind == 'hier' and route == 'from_dict':
            route = 'from_items'
        return {'op': 'new_fr', 'out': self.next_h, 'cls': cls, 'route': route, 'index': index, 'ikind': ikind,
                'columns': columns, 'ckind': ckind, 'data': data, 'name': ch.choice([None, 'fn'])}

    def _fresh_key(self, ch, e):
        '''A column key that is new for this frame (encoded).'''
        m = e.model.columns
        held = m.labels()
        if m.hier:
            fake = Ent(e.h, 'ih', None, m, True)
            fake.extra = {'kinds': None}
            t = self._gen_tuple(ch, fake, False)
            return {'t': t} if t is not None else None
        if m.unit is not None:
            from worlds.grow_index import DATES
            free = [x for x in DATES[m.unit] if norm(np.datetime64(x, m.unit)) not in held]
            return ch.choice(free) if free else None
        if m.raw == list(range(len(m.raw))) and ch.chance(0.6):
            return len(m.raw)
        pool = [x for x in COL_STR + list(range(5)) if norm(x) not in held]
        if m.raw and all(isinstance(x, str) for x in m.raw) and ch.chance(0.8):
            pool = [x for x in pool if isinstance(x, str)] or pool
        if not pool:
            return 'K%d' % len(m.raw)
        return ch.choice(pool)

    def _bad_key(self, ch, e):
        m = e.model.columns
        kind = ch.weighted([('dup', 4 if m.raw else 0), ('unhashable', 2), ('reentry', 3 if (m.hier and m.raw) else 0), ('odd', 1.5 if m.unit is None else 0)])
        if m.unit is not None and ch.chance(0.5):
            # date columns: a label that cannot be a date, or a held date in another spelling (string, finer unit)
            if not m.raw or ch.chance(0.3):
                return 'not-a-date'
            x = ch.choice(m.raw)
            return str(x) if (m.unit != 'D' or ch.chance(0.5)) else {'d': str(x) + 'T00:00'}
        if kind == 'odd':
            if m.hier:
                return 'AzQx'[:m.depth] if ch.chance(0.6) else {'bytes': 'AzQx'[:m.depth]}  # a plain string (or bytes) as long as the depth is not a tuple of labels
            return ch.choice([{'range': [0, 2, 1]}, {'range': [0, 3, 1]}, {'fset': [1, 2]}, {'nptype': 'ndarray'}, {'sfcls': 'Series'}])
        if kind == 'dup':
            return enc(ch.choice(m.raw))
        if kind == 'reentry':
            fake = Ent(e.h, 'ih', None, m, True)
            fake.extra = {'kinds': None}
            t = self._gen_tuple(ch, fake, True)
            return {'t': t} if t is not None else {'u': [1]}
        return {'u': [ch.choice([1, 2])]}

    def _gen_value(self, ch, e, fault):
        '''Value spec for setitem-like growth.'''
        m = e.model
        n = len(m.index.raw)
        if fault:
            vk = ch.weighted([('wrong_len', 4), ('gen_fail', 3), ('array2d', 1), ('frame', 1), ('array_wrong_len', 2)])
            if vk in ('wrong_len', 'array_wrong_len'):
                k = ch.choice([x for x in (n - 1, n + 1, n + 2, 0) if x >= 0 and x != n])
                return {'vk': vk, 'values': self._gen_cells(ch, k, ch.choice(['int', 'float']) if vk.startswith('array') else None)}
            if vk == 'gen_fail':
                return {'vk': vk, 'values': self._gen_cells(ch, n), 'fail_at': ch.randint(0, n)}
            if vk == 'array2d':
                return {'vk': vk, 'values': self._gen_cells(ch, n, 'int')}
            return {'vk': 'frame', 'values': self._gen_cells(ch, n)}
        vk = ch.weighted([('scalar', 2), ('list', 4), ('tuple', 1), ('gen', 2), ('array', 2), ('array_ro', 1),
                          ('series', 3), ('series_unaligned', 3), ('range', 0.5)])
        if vk == 'scalar':
            return {'vk': vk, 'values': [ch.choice(VAL_POOLS[ch.choice(['int', 'float', 'str', 'bool'])])]}
        if vk == 'range':
            return {'vk': vk, 'values': list(range(n))}
        if vk in ('array', 'array_ro'):
            return {'vk': vk, 'values': self._gen_cells(ch, n, ch.choice(['int', 'float', 'bool', 'str']))}
        if vk == 'series':
            perm = ch.shuffled(range(n)) if ch.chance(0.5) else list(range(n))
            return {'vk': vk, 'values': self._gen_cells(ch, n), 'sidx': perm}
        if vk == 'series_unaligned':
            # positions into the frame index; -1.. are labels the frame does not have
            k = ch.randint(0, n + 1)
            sidx = ch.sample(list(range(n)) + [-1, -2], min(k, n + 2))
            sp = {'vk': vk, 'values': self._gen_cells(ch, len(sidx)), 'sidx': sidx}
            if ch.chance(0.3):
                sp['fill'] = ch.choice([0, -1, 'zz'])
            return sp
        return {'vk': vk, 'values': self._gen_cells(ch, n)}

    def gen_fr_grow(self, ch):
        hs = self.handles(lambda e: e.kind == 'fr' and e.go)
        if not hs:
            return self.gen_new_fr(ch)
        h = ch.choice(hs)
        e = self.ents[h]
        fault = self.want_fault(ch)
        what = ch.weighted([('setitem', 5), ('extend_frame', 3), ('extend_series', 1.5), ('extend_items', 3)])
        if what == 'setitem':
            bad_key = fault and ch.chance(0.5)
            key = self._bad_key(ch, e) if bad_key else self._fresh_key(ch, e)
            if key is None:
                return None
            op = {'op': 'fr_setitem', 'h': h, 'key': key}
            op.update(self._gen_value(ch, e, fault and not bad_key))
            return op
        if what == 'extend_series':
            bad_key = fault
            key = self._bad_key(ch, e) if bad_key else self._fresh_key(ch, e)
            if key is None:
                return None
            sp = self._gen_value(ch, e, False)
            if sp['vk'] not in ('series', 'series_unaligned'):
                n = len(e.model.index.raw)
                sp = {'vk': 'series', 'values': self._gen_cells(ch, n), 'sidx': list(range(n))}
            op = {'op': 'fr_extend_series', 'h': h, 'key': key}
            op.update(sp)
            return op
        if what == 'extend_frame':
            op = {'op': 'fr_extend_frame', 'h': h}
            others = [x for x in self.handles(lambda e2: e2.kind == 'fr') if x != h]
            if others and ch.chance(0.35):
                op['src_h'] = ch.choice(others)
                return op
            n = len(e.model.index.raw)
            k = ch.weighted([(0, 1), (1, 3), (2, 4), (3, 2)])
            keys = []
            tmp = Ent(e.h, 'fr', None, e.model.copy(), True)
            for _ in range(k):
                key = self._fresh_key(ch, tmp)
                if key is None:
                    break
                keys.append(key)
                try:
                    tmp.model.columns.raw.append(dec(key))
                except Exception:
                    pass
            if fault and keys:
                kind = ch.choice(['dup_held', 'dup_held', 'dup_within'])
                pos = ch.randint(0, len(keys))
                if kind == 'dup_held' and e.model.columns.raw:
                    keys.insert(pos, enc(ch.choice(e.model.columns.raw)))
                else:
                    keys.insert(pos, keys[ch.randint(0, len(keys) - 1)])
            align = ch.choice(['same', 'perm', 'subset', 'other'])
            if align == 'same':
                sidx = list(range(n))
            elif align == 'perm':
                sidx = ch.shuffled(range(n))
            elif align == 'subset':
                sidx = ch.sample(range(n), ch.randint(0, n)) if n else []
            else:
                sidx = ch.sample(list(range(n)) + [-1, -2], ch.randint(0, n + 2))
            op.update({'keys': keys, 'sidx': sidx, 'data': [self._gen_cells(ch, len(sidx)) for _ in keys],
                       'src_go': ch.chance(0.3)})
            if ch.chance(0.25):
                op['fill'] = ch.choice([0, -1])
            return op
        # extend_items
        k = ch.randint(0, 3)
        items = []
        tmp = Ent(e.h, 'fr', None, e.model.copy(), True)
        for _ in range(k):
            key = self._fresh_key(ch, tmp)
            if key is None:
                break
            it = {'key': key}
            it.update(self._gen_value(ch, e, False))
            items.append(it)
            try:
                tmp.model.columns.raw.append(dec(key))
            except Exception:
                pass
        op = {'op': 'fr_extend_items', 'h': h, 'items': items, 'mode': ch.choice(['list', 'gen'])}
        if fault and items:
            kind = ch.choice(['bad_key', 'bad_value', 'gen_fail'])
            pos = ch.randint(0, len(items))
            if kind == 'bad_key':
                it = {'key': self._bad_key(ch, e)}
                it.update(self._gen_value(ch, e, False))
                items.insert(pos, it)
            elif kind == 'bad_value':
                key = self._fresh_key(ch, tmp)
                if key is not None:
                    it = {'key': key}
                    it.update(self._gen_value(ch, e, True))
                    items.insert(pos, it)
            else:
                op['mode'] = 'gen_fail'
                op['fail_at'] = ch.randint(0, len(items))
        return op

    def gen_fr_derive(self, ch):
        hs = self.handles(lambda e: e.kind == 'fr')
        if not hs:
            return None
        h = ch.choice(hs)
        m = self.ents[h].model
        how = ch.choice(FR_DERIVES)
        op = {'op': 'fr_derive', 'h': h, 'how': how, 'out': self.next_h}
        nr, nc = len(m.index.raw), len(m.data)
        if how in ('iloc_rows', 'loc_rows'):
            op['pos'] = sorted(ch.sample(range(nr), ch.randint(0, nr))) if nr else []
        elif how in ('iloc_cols', 'getitem_list'):
            op['pos'] = sorted(ch.sample(range(nc), ch.randint(0, nc))) if nc else []
        elif how in ('getitem_one', 'sort_values', 'set_index', 'drop_col', 'group_first', 'assign'):
            if not nc:
                return None
            op['pos'] = ch.randint(0, nc - 1)
        elif how in ('head', 'tail', 'roll', 'shift'):
            op['k'] = ch.randint(0, 2)
        elif how in ('sort_columns', 'sort_index'):
            op['asc'] = ch.chance(0.5)
        elif how == 'reindex':
            op['pos'] = ch.sample(range(nc), ch.randint(0, nc)) if nc else []
            op['extra'] = ch.chance(0.5)
        return op

    # ------------------------------------------------------------------ construction
    def do_new_fr(self, op, dec_):
        sf = self.sf
        cls = getattr(sf, op['cls'])
        go = op['cls'] == 'FrameGO'
        data = [list(c) for c in op['data']]
        ikind, ckind = op['ikind'], op['ckind']
        nrows = len(data[0]) if data else (len(op['index']) if op['index'] is not None else 0)
        name = op.get('name')

        def build():
            index = op['index']
            if ikind == 'date':
                idx = sf.IndexDate(index)
            elif ikind == 'hier':
                idx = sf.IndexHierarchy.from_labels([tuple(t) for t in index]) if index else None
            elif ikind == 'auto' or index is None:
                idx = None
            else:
                idx = list(index)
            columns = op['columns']
            if ckind == 'hier':
                cols = (sf.IndexHierarchyGO if go else sf.IndexHierarchy).from_labels([tuple(t) for t in columns]) if columns else None
            elif ckind == 'auto' or columns is None:
                cols = None
            else:
                cols = list(columns)
            route = op['route']
            if route == 'from_records' or cols is None:
                rows = [[c[i] for c in data] for i in range(nrows)]
                return cls.from_records(rows, index=idx, columns=cols, name=name)
            if route == 'array2d':
                rows = [[c[i] for c in data] for i in range(nrows)]
                a = np.array(rows) if rows and data else np.empty((nrows, len(data)))
                return cls(a, index=idx, columns=cols, name=name)
            if route == 'via_static':
                f = sf.Frame.from_items(zip(list(cols) if not isinstance(cols, list) else cols, data), index=idx, name=name,
                                        columns_constructor=(sf.IndexHierarchy.from_labels if ckind == 'hier' else None))
                return cls(f) if op['cls'] != 'FrameGO' else f.to_frame_go()
            if route == 'from_dict' and ckind != 'hier':
                return cls.from_dict(dict(zip(cols, data)), index=idx, name=name)
            labels = list(cols) if not isinstance(cols, list) else cols
            cc = None
            if ckind == 'hier':
                cc = (sf.IndexHierarchyGO if go else sf.IndexHierarchy).from_labels
            if ckind == 'date':
                cc = sf.IndexDateGO if go else sf.IndexDate
            return cls.from_items(zip(labels, data), index=idx, name=name, columns_constructor=cc)
        st, r = call(build)
        if st == 'raise':
            self.stats['construct_raise:frame'] += 1
            return 'raise:' + type(r).__name__
        out = self.adopt_frame(r, op['out'], f"{op['cls']}.{op['route']}", op)
        if op['out'] in self.ents and (ckind == 'auto' or op['columns'] is None):
            self.ents[op['out']].extra['auto_cols'] = True
        return out

    def adopt_frame(self, r, h, site, op):
        st, m = call(frame_model_from, r)
        if st == 'raise':
            raise Violation(f'{self.profile}.lockstep' if self.profile == 'C09' else f'{self.profile}.bijection', site, 'new-unreadable', f'{type(m).__name__}: {m}')
        def has_nan(ixm):
            for lab in ixm.raw:
                for x in (lab if isinstance(lab, tuple) else (lab,)):
                    if isinstance(x, float) and x != x:
                        return True
            return False
        if has_nan(m.index) or has_nan(m.columns):
            return 'nan-labels'  # equality-based lookup is undefined for NaN labels: outside the claims
        e = self.add('fr', r, m, is_go(type(r).__name__), origin=site, h=h)
        st, s = call(snap_frame, r)
        if st == 'ok':
            learn_frame(m, s)
        self.check_ent(e, op, full=True)
        return 'ok:' + type(r).__name__

    def adopt_series(self, r, h, site, op):
        st, m = call(series_model_from, r)
        if st == 'raise':
            return 'unreadable'
        e = self.add('se', r, m, False, origin=site, h=h)
        st, s = call(snap_series, r)
        if st == 'ok':
            learn_series(m, s)
        return 'ok:Series'

    # ------------------------------------------------------------------ growth helpers
    def _key_class(self, e, key):
        '''(expectation, class) for appending column label `key`.'''
        m = e.model.columns
        if unhashable(key):
            auto = '-auto' if (not m.hier and m.raw == list(range(len(m.raw))) and e.extra.get('auto_cols')) else ''
            return 'may', 'unhashable-key' + auto
        if m.hier:
            if not isinstance(key, tuple) or len(key) != m.depth:
                return 'may', 'key-wrong-depth'
            from worlds.grow_hier import norm_t
            nts = [norm_t(t) for t in m.raw]
            if norm_t(key) in nts:
                return 'must', 'duplicate-key'
            if not is_tree_order(nts + [norm_t(key)]):
                return 'may-accept', 'hier-key-non-tree-reentry'
            return 'accept', 'hier-key'
        if m.unit is not None:
            try:
                ck = np.datetime64(key, m.unit)
                if np.isnat(ck):
                    return 'may', 'bad-date-key'
            except Exception:
                return 'may', 'bad-date-key'
            if norm(ck) in m.labels():
                return 'must', 'duplicate-key'
            return 'accept', 'new-date-key'
        if isinstance(key, (range, frozenset, type)):
            return 'may', 'odd-hashable-key'
        if norm(key) in m.labels():
            return 'must', 'duplicate-key'
        return 'accept', 'new-key'

    def _value_cells(self, e, sp):
        '''-> (expectation, class, cells or None, builder) for a value spec against frame e.'''
        sf = self.sf
        m = e.model
        n = len(m.index.raw)
        vk = sp['vk']
        vals = list(sp.get('values', []))
        fill = sp.get('fill', NAN)
        if vk == 'scalar':
            v = vals[0] if vals else 0
            return 'accept', 'scalar', [v] * n, lambda: v
        if vk in ('list', 'tuple', 'gen', 'range', 'array', 'array_ro'):
            if len(vals) != n:
                return 'must', 'wrong-length-' + vk, None, (lambda: list(vals))
            if vk == 'list':
                return 'accept', vk, vals, lambda: list(vals)
            if vk == 'tuple':
                return 'accept', vk, vals, lambda: tuple(vals)
            if vk == 'gen':
                return 'accept', vk, vals, lambda: (x for x in vals)
            if vk == 'range':
                if vals != list(range(n)):
                    return 'must', 'wrong-length-range', None, (lambda: range(len(vals)))
                return 'accept', vk, vals, lambda: range(n)

            def mk_arr():
                a = np.array(vals) if vals else np.array(vals, dtype=float)
                if vk == 'array_ro':
                    a.flags.writeable = False
                self._caller_arrays.append((a, list(vals)))
                return a
            if vals and len({type(x) for x in vals}) != 1:
                return 'accept', 'list', vals, lambda: list(vals)
            return 'accept', vk, vals, mk_arr
        if vk == 'wrong_len':
            return ('must' if len(vals) != n else 'accept'), 'wrong-length-list', (vals if len(vals) == n else None), lambda: list(vals)
        if vk == 'array_wrong_len':
            return ('must' if len(vals) != n else 'accept'), 'wrong-length-array', (vals if len(vals) == n else None), lambda: np.array(vals, dtype=float if not vals else None)
        if vk == 'array2d':
            return 'must', 'array-2d', None, lambda: np.array([vals, vals]).T if vals else np.empty((0, 2))
        if vk == 'frame':
            return 'must', 'frame-value', None, lambda: sf.Frame.from_dict({'zz': vals}) if len(vals) else sf.Frame()
        if vk == 'gen_fail':
            k = sp.get('fail_at', 0)

            def mk_gen():
                def g():
                    for i, x in enumerate(vals):
                        if i == k:
                            raise SimulatedFailure('value iterable failed')
                        yield x
                    raise SimulatedFailure('value iterable failed')
                return g()
            return 'fail', 'value-iterable-fails', None, mk_gen
        if vk in ('series', 'series_unaligned'):
            sidx = sp.get('sidx', [])
            if len(sidx) != len(vals):
                return 'skip', '', None, None
            labels = []
            for p in sidx:
                if p >= n:
                    return 'skip', '', None, None
                if p >= 0:
                    labels.append(m.index.raw[p])
                else:
                    labels.append(('zz', 90 - p) if m.index.hier and m.index.depth == 2 else 'zz%d' % (-p) if m.index.unit is None else np.datetime64('1999-01-0%d' % (-p), 'D'))
            cells = []
            for p in range(n):
                if p in sidx:
                    cells.append(vals[sidx.index(p)])
                else:
                    cells.append(fill)
            aligned = sidx == list(range(n))

            def mk_series():
                if m.index.hier:
                    ix = sf.IndexHierarchy.from_labels(labels) if labels else sf.IndexHierarchy.from_labels((), depth_reference=m.index.depth)
                elif m.index.unit is not None:
                    ix = getattr(sf, m.index.cls.replace('GO', ''))(labels)
                else:
                    ix = sf.Index(labels)
                return sf.Series(vals, index=ix)
            if m.index.hier and len(set(map(repr, labels))) == len(labels):
                from worlds.grow_hier import norm_t
                if not is_tree_order([norm_t(t) for t in labels]):
                    return 'skip', '', None, None
            return 'accept', 'series-aligned' if aligned else 'series-reindexed', cells, mk_series
        return 'skip', '', None, None

    def _apply_growth(self, e, op, site, exp, cls, fn, new_keys, new_cells, supplied_keys):
        '''Run growth `fn`; on success append (new_keys, new_cells) to the model.'''
        m = e.model
        st, r = self._grow_call(e, fn, exp)
        if st == 'raise':
            return self._growth_failed(e, op, site, cls, supplied_keys, r, 'accept' if exp == 'accept' else exp, fn)
        if exp in ('must', 'fail'):
            if exp == 'must' and self.want('C09.reject'):
                raise Violation('C09.reject', site, cls, 'a duplicate / mis-sized growth argument was accepted')
            del self.ents[e.h]
            return 'accepted-bad'
        if exp == 'may':
            one = len(supplied_keys) == 1
            self._readable_after_accept(e, site, cls, labels=(supplied_keys if one else new_keys), single=one)
            del self.ents[e.h]
            return 'accepted-unmodelled'
        for k, c in zip(new_keys, new_cells):
            m.columns.raw.append(m.columns.coerce(k) if not m.columns.hier else k)
            m.data.append(list(c))
            m.dts.append(None)
        m.columns.wild()
        if new_keys:
            self._growth_ok(e, site, cls)
            if exp == 'may-accept':
                self.fault('growth-non-tree-reentry-accepted')
        return 'ok'

    # ------------------------------------------------------------------ growth ops
    def do_fr_setitem(self, op, dec_):
        e = self.get(op['h'], ('fr',))
        if e is None or not e.go:
            return 'skip'
        key = dec(op['key'])
        kexp, kcls = self._key_class(e, key)
        vexp, vcls, cells, mk = self._value_cells(e, op)
        if vexp == 'skip':
            return 'skip'
        order = {'accept': 0, 'may-accept': 1, 'may': 2, 'fail': 3, 'must': 4}
        exp = kexp if order[kexp] >= order[vexp] else vexp
        cls = '+'.join(x for x in (kcls if kexp != 'accept' else '', vcls if (vexp != 'accept' or kexp == 'accept') else '') if x)
        site = 'FrameGO.__setitem__'
        obj = e.obj
        fill = op.get('fill')

        def fn(obj):
            v = mk()
            if fill is not None:
                obj.__setitem__(key, v, fill)
            else:
                obj[key] = v
        return self._apply_growth(e, op, site, exp, cls, fn, [key], [cells] if cells is not None else [[]], [key])

    def do_fr_extend_series(self, op, dec_):
        sf = self.sf
        e = self.get(op['h'], ('fr',))
        if e is None or not e.go:
            return 'skip'
        key = dec(op['key'])
        kexp, kcls = self._key_class(e, key)
        vexp, vcls, cells, mk = self._value_cells(e, op)
        if vexp == 'skip' or op['vk'] not in ('series', 'series_unaligned'):
            return 'skip'
        if unhashable(key):
            return 'skip'  # a Series cannot carry an unhashable name
        exp = kexp
        cls = (kcls if kexp != 'accept' else vcls)
        site = 'FrameGO.extend(Series)'
        obj = e.obj
        fill = op.get('fill')

        def fn(obj):
            s = mk().rename(key)
            if fill is not None:
                obj.extend(s, fill_value=fill)
            else:
                obj.extend(s)
        return self._apply_growth(e, op, site, exp, cls, fn, [key], [cells], [key])

    def do_fr_extend_frame(self, op, dec_):
        sf = self.sf
        e = self.get(op['h'], ('fr',))
        if e is None or not e.go:
            return 'skip'
        m = e.model
        n = len(m.index.raw)
        site = 'FrameGO.extend(Frame)'
        fill = op.get('fill')
        fv = NAN if fill is None else fill
        if 'src_h' in op:
            se = self.get(op['src_h'], ('fr',))
            if se is None:
                return 'skip'
            src = se.obj
            sm = se.model
            keys = list(sm.columns.raw)
            s_index = list(sm.index.raw)
            t_index = list(m.index.raw)
            if len(set(sm.index.labels())) != len(s_index):
                return 'skip'

            def find(lab):
                # label equality is Python equality (True == 1 == 1.0), as in the library's hash-based lookup
                for i, x in enumerate(s_index):
                    try:
                        if x == lab and not isinstance(x == lab, np.ndarray):
                            return i
                    except Exception:
                        pass
                return None
            pos = [find(lab) for lab in t_index]
            cells = []
            for c in sm.data:
                cells.append([c[i] if i is not None else fv for i in pos])
            if sm.columns.hier != m.columns.hier:
                return 'skip'
            self.probe('extend-from-pool-member')
        else:
            keys = [dec(k) for k in op['keys']]
            sidx = op['sidx']
            data = op['data']
            if any(p >= n for p in sidx) or any(len(c) != len(sidx) for c in data) or len(data) != len(keys):
                return 'skip'
            if any(unhashable(k) for k in keys):
                return 'skip'
            labels = []
            for p in sidx:
                if p >= 0:
                    labels.append(m.index.raw[p])
                else:
                    labels.append(('zz', 90 - p) if m.index.hier else ('zz%d' % (-p) if m.index.unit is None else np.datetime64('1999-01-0%d' % (-p), 'D')))
            cells = []
            for c in data:
                cells.append([c[sidx.index(p)] if p in sidx else fv for p in range(n)])
            if m.index.hier:
                from worlds.grow_hier import norm_t
                if labels and not is_tree_order([norm_t(t) for t in labels]):
                    return 'skip'

            def build_src():
                if m.index.hier:
                    ix = sf.IndexHierarchy.from_labels(labels) if labels else None
                    if ix is None:
                        raise SimulatedFailure('cannot build empty hierarchy')
                elif m.index.unit is not None:
                    ix = getattr(sf, m.index.cls.replace('GO', ''))(labels)
                else:
                    ix = sf.Index(labels)
                cc = None
                if m.columns.hier:
                    cc = sf.IndexHierarchy.from_labels
                cls_ = sf.FrameGO if op.get('src_go') else sf.Frame
                if not keys:
                    return cls_(index=ix)
                return cls_.from_items(zip(keys, data), index=ix, columns_constructor=cc)
            st, src = call(build_src)
            if st == 'raise':
                return 'skip-src:' + type(src).__name__
        # expectation
        held = m.columns.labels()
        from worlds.grow_hier import norm_t
        nk = [norm_t(k) if m.columns.hier and isinstance(k, tuple) else norm(k) for k in keys]
        exp, cls = 'accept', 'new-columns' if keys else 'zero-columns'
        seen = list(held)
        for i, k in enumerate(nk):
            if k in seen:
                every = all(x in held for x in nk)
                exp = 'must'
                cls = 'duplicate-columns-all' if every else ('duplicate-columns-partial@first' if i == 0 else 'duplicate-columns-partial@later')
                break
            seen.append(k)
        if exp == 'accept' and m.columns.hier and keys:
            if any((not isinstance(k, tuple)) or len(k) != m.columns.depth for k in keys):
                exp, cls = 'may', 'hier-depth-mismatch'
            elif not is_tree_order([norm_t(t) for t in m.columns.raw] + [norm_t(t) for t in keys]):
                exp, cls = 'may-accept', 'hier-columns-non-tree-reentry'
        obj = e.obj

        def fn(obj):
            if fill is not None:
                obj.extend(src, fill_value=fill)
            else:
                obj.extend(src)
        return self._apply_growth(e, op, site, exp, cls, fn, keys, cells, keys)

    def do_fr_extend_items(self, op, dec_):
        e = self.get(op['h'], ('fr',))
        if e is None or not e.go:
            return 'skip'
        m = e.model
        site = 'FrameGO.extend_items'
        items = op['items']
        mode = op.get('mode', 'list')
        fail_at = op.get('fail_at', 0)
        exp, cls = 'accept', 'all-valid'
        keys, cells_all, builders = [], [], []
        tmp = Ent(e.h, 'fr', None, m.copy(), True)
        tmp.extra = dict(e.extra)
        for i, it in enumerate(items):
            if mode == 'gen_fail' and i == fail_at:
                break
            try:
                key = dec(it['key'])
            except Exception:
                return 'skip'
            it = {k_: v_ for k_, v_ in it.items() if k_ != 'fill'}
            kexp, kcls = self._key_class(tmp, key)
            vexp, vcls, cells, mk = self._value_cells(tmp, it)
            if vexp == 'skip':
                return 'skip'
            keys.append(key)
            builders.append((key, mk))
            if exp in ('accept', 'may-accept'):
                for x, c in ((kexp, kcls), (vexp, vcls)):
                    if x not in ('accept',):
                        if x == 'may-accept':
                            exp, cls = 'may-accept', c
                            continue
                        exp, cls = x, f'{c}@{"first" if i == 0 else "later"}'
                        break
            if exp in ('accept', 'may-accept'):
                cells_all.append(cells)
                tmp.model.columns.raw.append(key)
                tmp.model.data.append(list(cells))
                tmp.model.dts.append(None)
        if mode == 'gen_fail' and exp in ('accept', 'may-accept'):
            exp, cls = 'fail', 'pairs-iterable-fails@' + ('first' if fail_at == 0 else 'later')
        all_builders = []
        for it in items:
            try:
                key = dec(it['key'])
            except Exception:
                return 'skip'
            _, _, _, mk = self._value_cells(e, {k_: v_ for k_, v_ in it.items() if k_ != 'fill'})
            all_builders.append((key, mk))
        obj = e.obj

        def pairs():
            for i, (k, mk) in enumerate(all_builders):
                if mode == 'gen_fail' and i == fail_at:
                    raise SimulatedFailure('pairs iterable failed')
                yield k, mk()
            if mode == 'gen_fail' and fail_at >= len(all_builders):
                raise SimulatedFailure('pairs iterable failed')

        def fn(obj):
            obj.extend_items(pairs() if mode != 'list' else list(pairs()))
        ok_keys = keys[:len(cells_all)]
        return self._apply_growth(e, op, site, exp, cls, fn, ok_keys, cells_all, [dec(it['key']) for it in items])

    # ------------------------------------------------------------------ derivation
    def do_fr_derive(self, op, dec_):
        sf = self.sf
        e = self.get(op['h'], ('fr',))
        if e is None:
            return 'skip'
        how = op['how']
        obj = e.obj
        m = e.model
        nr, nc = len(m.index.raw), len(m.data)
        pos = op.get('pos')
        cols = m.columns.raw

        def col(i):
            return cols[i]

        def mk():
            if how == 'to_frame':
                return obj.to_frame()
            if how == 'to_frame_go':
                return obj.to_frame_go()
            if how == 'to_frame_go_then_go':
                return obj.to_frame_go().to_frame_go()
            if how == 'to_frame_he':
                return obj.to_frame_he()
            if how == 'ctor_static':
                return sf.Frame(obj)
            if how == 'ctor_go':
                return sf.FrameGO(obj)
            if how == 'ctor_he':
                return sf.FrameHE(obj)
            if how == 'deepcopy':
                return copy.deepcopy(obj)
            if how == 'copy_copy':
                return copy.copy(obj)
            if how == 'pickle':
                return pickle.loads(pickle.dumps(obj))
            if how == 'iloc_rows':
                return obj.iloc[[p for p in pos if p < nr]]
            if how == 'iloc_cols':
                return obj.iloc[:, [p for p in pos if p < nc]]
            if how == 'getitem_list':
                return obj[[col(p) for p in pos if p < nc]]
            if how == 'getitem_one':
                return obj[col(pos % nc)]
            if how == 'loc_rows':
                return obj.loc[[m.index.raw[p] for p in pos if p < nr]]
            if how == 'relabel':
                return obj.relabel(columns=lambda x: (x, 'r'))
            if how == 'relabel_index':
                return obj.relabel(index=lambda x: (x, 'r'))
            if how == 'rename':
                return obj.rename('r2')
            if how == 'sort_columns':
                return obj.sort_columns(ascending=op.get('asc', True))
            if how == 'sort_index':
                return obj.sort_index(ascending=op.get('asc', True))
            if how == 'sort_values':
                return obj.sort_values(col(pos % nc))
            if how == 'reindex':
                want = [col(p) for p in pos if p < nc]
                if op.get('extra'):
                    want.append('NEW' if not m.columns.hier else ('zz', 99))
                return obj.reindex(columns=want, fill_value=0)
            if how == 'transpose':
                return obj.transpose()
            if how == 'set_index':
                return obj.set_index(col(pos % nc))
            if how == 'isna':
                return obj.isna()
            if how == 'mul':
                return obj * 2
            if how == 'head':
                return obj.head(op.get('k', 1))
            if how == 'tail':
                return obj.tail(op.get('k', 1))
            if how == 'drop_col':
                return obj.drop[col(pos % nc)]
            if how == 'group_first':
                return next(iter(obj.iter_group(col(pos % nc))))
            if how == 'iter_series_first':
                return next(iter(obj.iter_series(axis=0)))
            if how == 'astype_obj':
                return obj.astype(object)
            if how == 'columns_static':
                return (sf.IndexHierarchy if m.columns.hier else sf.Index)(obj.columns)
            if how == 'columns_copy':
                return obj.columns.copy()
            if how == 'index_ref':
                return obj.index
            if how == 'assign':
                return obj.assign[col(pos % nc)](0)
            if how == 'roll':
                return obj.roll(op.get('k', 1), op.get('k', 1))
            if how == 'shift':
                return obj.shift(op.get('k', 1), fill_value=0)
            if how == 'concat_self':
                return type(obj).from_concat((obj, obj.relabel(index=lambda x: (x, 'r'))), axis=0)
            if how == 'fillna':
                return obj.fillna(0)
            if how == 'round':
                return round(obj)
            if how == 'level_add_drop_index':
                # a level is added to, then dropped from, the index only: the columns pass through untouched
                return obj.relabel_level_add(index='outer').relabel_level_drop(index=1)
            if how == 'sample_rows':
                return obj.sample(index=max(1, len(obj.index) - 1), seed=3)  # rows only: the columns pass through
            if how == 'sample_cols':
                return obj.sample(columns=max(1, len(obj.columns) - 1), seed=3)
            if how == 'relabel_flat_index':
                if obj.index.depth < 2:
                    raise SimulatedFailure('index is not hierarchical')
                return obj.relabel_flat(index=True)  # the columns pass through
            if how == 'relabel_flat_columns':
                if obj.columns.depth < 2:
                    raise SimulatedFailure('columns are not hierarchical')
                return obj.relabel_flat(columns=True)
            if how == 'drop_row_loc':
                # only rows are dropped: the (grow-only) columns pass through and must still not be shared
                return obj.drop.loc[obj.index.values[0] if obj.index.depth == 1 else tuple(obj.index.values[0])]
            if how == 'drop_rows_loc_list':
                return obj.drop.loc[[x if obj.index.depth == 1 else tuple(x) for x in obj.index.values[:2].tolist()]]
            if how == 'drop_rows_iloc':
                return obj.drop.iloc[[0]]
            if how == 'drop_rows_iloc_none':
                return obj.drop.iloc[[0], None]
            if how == 'drop_bool_series':
                return obj.drop.loc[sf.Series([i == 0 for i in range(len(obj.index))], index=obj.index)]
            if how == 'level_add_index':
                return obj.relabel_level_add(index='outer')
            if how == 'level_drop_index':
                # only index levels are dropped: the (grow-only) columns must still not be shared with the source
                if obj.index.depth < 2:
                    raise SimulatedFailure('index is not hierarchical')
                return obj.relabel_level_drop(index=1)
            if how == 'level_add_columns':
                return obj.relabel_level_add(columns='outer')
            if how == 'level_add_drop_columns':
                return obj.relabel_level_add(columns='outer').relabel_level_drop(columns=1)
            if how == 'neg':
                return -obj
            if how == 'abs':
                return abs(obj)
            if how == 'clip':
                return obj.clip(lower=0)
            if how == 'cumsum':
                return obj.cumsum()
            if how == 'dropna':
                return obj.dropna()
            if how == 'isin':
                return obj.isin((0, 1))
            if how == 'rehierarch_index':
                return obj.relabel_level_add(index='outer').rehierarch(index=(1, 0))
            if how == 'unset_index':
                return obj.unset_index()
            if how == 'bloc_assign':
                return obj.assign.bloc[obj.isna()](0)
            if how == 'iter_array_hold':
                return sf.Frame.from_items(zip(range(nc), list(obj.iter_array(axis=0))), index=obj.index)
            raise KeyError(how)
        st, r = call(mk)
        if st == 'raise':
            self.stats['derive_raise:' + how] += 1
            return 'raise:' + type(r).__name__
        self.stats['derive:' + how] += 1
        site = f'{m.cls}.{how}'
        if isinstance(r, sf.Frame):
            return self.adopt_frame(r, op['out'], site, op)
        if isinstance(r, sf.Series):
            return self.adopt_series(r, op['out'], site, op)
        if isinstance(r, IndexBase):
            return self.adopt_index(r, op['out'], site, op)
        return 'other'

    # ------------------------------------------------------------------ oracles
    def check_se(self, e, op, full=False):
        if self.profile != 'C09':
            return
        st, s = call(snap_series, e.obj)
        site, cls = self.blame(e, op)
        if st == 'raise':
            raise Violation('C09.isolation', site, 'changed-by:' + self.site_of(op), f'series read raised {type(s).__name__}: {s}')
        ex = expected_series_snap(e.model, s)
        if s != ex:
            raise Violation('C09.isolation', site, 'changed-by:' + self.site_of(op), first_diff(ex, s))

    def check_fr(self, e, op, full=False):
        obj = e.obj
        m = e.model
        site, cls = self.blame(e, op)
        pend = e.extra.get('pending_fail')
        P = self.profile
        if P == 'C02':
            # the columns (grow-only) and index of the frame are indices like any other
            for ax, ixm in (('columns', m.columns), ('index', m.index)):
                st, ix = call(getattr, obj, ax)
                if st == 'raise':
                    raise Violation('C02.bijection', site, cls, f'{ax} raised {type(ix).__name__}')
                fake = Ent(e.h, 'ih' if ixm.hier else 'ix', ix, ixm, e.go)
                fake.extra = {k: v for k, v in e.extra.items() if k in ('last_growth', 'failed', 'pending_fail')}
                fake.origin = e.origin
                (self.check_ih if ixm.hier else self.check_ix)(fake, op, full)
            return
        if P != 'C09':
            return

        def fail(oracle, detail, cls_=cls):
            raise Violation(oracle, site, cls_, detail)
        exp_nc = len(m.data)
        exp_nr = len(m.index.raw)
        # 1. lock-step of labels and data
        st_s, shape = call(lambda: tuple(obj.shape))
        st_c, ncols = call(lambda: len(obj.columns))
        st_l, clist = call(lambda: list(obj.columns))
        st_a, arrays = call(lambda: list(obj.iter_array(axis=0)))
        problems = []
        for nm, st, v in (('shape', st_s, shape), ('len(columns)', st_c, ncols), ('list(columns)', st_l, clist), ('iter_array', st_a, arrays)):
            if st == 'raise':
                problems.append(f'{nm} raised {type(v).__name__}: {v}')
        if not problems:
            if not (shape[1] == ncols == len(clist) == len(arrays)):
                problems.append(f'shape={shape} len(columns)={ncols} labels={len(clist)} data columns={len(arrays)}')
        if not problems:
            for j, lab in enumerate(clist):
                plain = isinstance(lab, (str, int, np.integer, np.datetime64)) or (isinstance(lab, tuple) and all(isinstance(x, (str, int, np.integer, np.datetime64)) for x in lab))
                st, s = call(lambda: obj[lab] if plain else None)
                if st == 'raise':
                    problems.append(f'column {lab!r} not readable by label: {type(s).__name__}: {s}')
                    break
                st, s2 = call(lambda: obj.iloc[:, j])
                if st == 'raise':
                    problems.append(f'column {j} not readable by position: {type(s2).__name__}: {s2}')
                    break
                if s is not None and norm_list(list(s.values)) != norm_list(list(s2.values)):
                    problems.append(f'column {lab!r} by label differs from position {j}')
                    break
        if not problems:
            st, dts = call(lambda: [str(x) for x in obj.dtypes.values])
            if st == 'raise':
                problems.append(f'dtypes raised {type(dts).__name__}: {dts}')
            elif dts != [str(a.dtype) for a in arrays]:
                problems.append(f'dtypes {dts} do not describe the data columns {[str(a.dtype) for a in arrays]}')
        if not problems and full:
            st, v = call(lambda: obj.values)
            if st == 'raise':
                problems.append(f'values raised {type(v).__name__}: {v}')
            st, v = call(lambda: repr(obj))
            if st == 'raise':
                problems.append(f'display raised {type(v).__name__}: {v}')
        if problems:
            never = not (e.go and e.extra.get('last_growth'))
            if never and not pend and op.get('op') not in ('new_fr', 'fr_derive'):
                fail('C09.isolation', '; '.join(problems), cls_='changed-by:' + self.site_of(op))
            fail('C09.atomic.torn' if pend else 'C09.lockstep', '; '.join(problems))
        # 2. content
        st, s = call(snap_frame, obj)
        if st == 'raise':
            fail('C09.atomic.torn' if pend else 'C09.lockstep', f'snapshot raised {type(s).__name__}: {s}')
        never_grown = not (e.go and e.extra.get('last_growth'))
        ex = expected_frame_snap(m, s)
        if s == ex:
            return
        detail = first_diff(ex, s)
        if pend:
            # coherent prefix of the supplied units applied?
            from worlds.grow_hier import norm_t
            sup = []
            for k in pend['supplied']:
                try:
                    sup.append(norm_t(k) if m.columns.hier and isinstance(k, tuple) else norm(k))
                except Exception:
                    sup.append(('unmodelled',))
            got_labels = s['columns']['labels']
            old = ex['columns']['labels']
            coherent = (s['index'] == ex['index'] and s['cols'][:exp_nc] == ex['cols'] and got_labels[:exp_nc] == old
                        and len(got_labels) > exp_nc and got_labels[exp_nc:] == sup[:len(got_labels) - exp_nc]
                        and s['name'] == ex['name'])
            fail('C09.atomic.prefix-applied' if coherent else 'C09.atomic.torn', 'after failed growth: ' + detail)
        if not never_grown and not e.extra.get('failed'):
            fail('C09.prefix', detail)
        fail('C09.isolation', detail, cls_='changed-by:' + self.site_of(op))
