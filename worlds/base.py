'''Shared world plumbing: object table, label codec, SUT-call helpers, allocator knob.'''
import collections

import numpy as np

from sim.core import Violation, canon, h64


class SimulatedFailure(Exception):
    '''Raised by caller-supplied iterables / functions that the simulator makes fail.'''


def enc(x):
    '''Python label/value -> JSON-able literal.'''
    if isinstance(x, (np.datetime64,)):
        return {'d': str(x)}
    if isinstance(x, np.timedelta64):  # before np.integer: timedelta64 is a signed integer for NumPy
        return {'td': [int(x.astype('int64')), np.datetime_data(x.dtype)[0]]}
    if isinstance(x, tuple):
        return {'t': [enc(v) for v in x]}
    if isinstance(x, list):
        return {'u': [enc(v) for v in x]}
    if isinstance(x, (np.integer,)):
        return int(x)
    if isinstance(x, (np.floating,)):
        return float(x)
    if isinstance(x, (np.bool_,)):
        return bool(x)
    if isinstance(x, np.str_):
        return str(x)
    if isinstance(x, float) and x != x:
        return {'nan': 1}
    if isinstance(x, type) and x.__module__ == 'numpy':
        return {'nptype': x.__name__}
    if isinstance(x, bytes):
        return {'bytes': x.decode()}
    if isinstance(x, range):
        return {'range': [x.start, x.stop, x.step]}
    if isinstance(x, frozenset):
        return {'fset': sorted(x)}
    return x


def dec(j):
    if isinstance(j, dict):
        if 'd' in j:
            return np.datetime64(j['d'])
        if 't' in j:
            return tuple(dec(v) for v in j['t'])
        if 'u' in j:
            return [dec(v) for v in j['u']]
        if 'nan' in j:
            return float('nan')
        if 'nptype' in j:
            return getattr(np, j['nptype'])
        if 'td' in j:
            return np.timedelta64(j['td'][0], j['td'][1])
        if 'bytes' in j:
            return j['bytes'].encode()
        if 'range' in j:
            return range(*j['range'])
        if 'fset' in j:
            return frozenset(j['fset'])
        if 'sfcls' in j:
            import static_frame
            return getattr(static_frame, j['sfcls'])
        raise ValueError(j)
    return j


def call(fn, *a, **k):
    '''Run a SUT call. Returns ('ok', value) or ('raise', exception). SimulatedFailure is an ordinary exception here.'''
    try:
        return 'ok', fn(*a, **k)
    except Exception as e:  # noqa: BLE001 - the SUT may raise anything
        return 'raise', e


class Ent:
    __slots__ = ('h', 'kind', 'obj', 'model', 'go', 'frozen', 'origin', 'extra')

    def __init__(self, h, kind, obj, model, go, origin=''):
        self.h = h
        self.kind = kind
        self.obj = obj
        self.model = model
        self.go = go
        self.frozen = None
        self.origin = origin
        self.extra = {}


class WorldBase:
    NAME = 'base'

    def __init__(self, profile, config):
        self.profile = profile
        self.config = config
        self.stats = collections.Counter()
        self.interleavings = set()
        self.sim_time = 0
        self.ents = {}
        self.next_h = 0
        self.log = None

    # -- hooks -------------------------------------------------------------------------
    def setup(self, log):
        self.log = log
        self.reset_globals()

    def teardown(self):
        pass

    def finish(self):
        pass

    def state_hash(self):
        return 0

    def quarantine(self, op):
        '''Drop the objects a (known) violation concerns so the run can go on.'''
        for h in (getattr(self, '_current', None), op.get('h'), op.get('out')):
            if h is not None and h in self.ents:
                del self.ents[h]
        self._current = None

    @staticmethod
    def nontrivial(stats):
        return True

    @classmethod
    def simplify(cls, config, ops):
        return ()

    # -- helpers -----------------------------------------------------------------------
    def reset_globals(self):
        '''Process-global state of the library is reset at the start of every run so that a run's
        outcome does not depend on what ran before it in the same worker process. The allocator
        capacity is a per-run knob (the shipped 1024 hides the grow path from small tests).'''
        from static_frame.core.util import PositionsAllocator, DTYPE_INT_DEFAULT
        cap = int(self.config.get('alloc_cap', 1024))
        PositionsAllocator._size = cap
        arr = np.arange(cap, dtype=DTYPE_INT_DEFAULT)
        arr.flags.writeable = False
        PositionsAllocator._array = arr

    def probe(self, name, n=1):
        self.stats['probe:' + name] += n

    def fault(self, name, n=1):
        self.stats['fault:' + name] += n

    def opstat(self, name):
        self.stats['op:' + name] += 1

    def add(self, kind, obj, model, go, origin='', h=None):
        if h is None:
            h = self.next_h
        self.next_h = max(self.next_h, h) + 1
        e = Ent(h, kind, obj, model, go, origin)
        self.ents[h] = e
        return e

    def get(self, h, kinds=None):
        e = self.ents.get(h)
        if e is None:
            return None
        if kinds is not None and e.kind not in kinds:
            return None
        return e

    def handles(self, pred=None):
        return [h for h in sorted(self.ents) if pred is None or pred(self.ents[h])]

    def want(self, oracle):
        '''Only the oracles of the property being checked are evaluated.'''
        return oracle.startswith(self.profile[:3] + '.')
