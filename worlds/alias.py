'''AliasWorld: histories of public calls over a pool of live static containers built from caller-held
arrays, with an adversary caller that later writes into every buffer it passed in and tries to
write into every array it was handed.  Serves C01.  DESIGN.md 5.1.
'''
import datetime
import copy
import inspect
import pickle

import numpy as np

from sim.core import Violation, canon, h64
from sim.snap import norm, snap as _snap, first_diff


def _lookups(ix):
    '''Position every (of the first dozen) label looks up to: offsets and maps are state that label arrays do not show.'''
    out = []
    for i, lab in enumerate(ix):
        if i >= 12:
            break
        try:
            p = ix.loc_to_iloc(tuple(lab) if ix.depth > 1 else lab)
            out.append(int(p) if isinstance(p, (int, np.integer)) else repr(type(p).__name__))
        except Exception as e:  # noqa
            out.append('raise:' + type(e).__name__)
    return out


def snap(obj):
    '''sim.snap.snap plus the label -> position lookups of every index involved.'''
    s = _snap(obj)
    if hasattr(obj, 'dtypes') and hasattr(obj, 'columns'):
        try:
            s = dict(s, dtypes=[str(x) for x in obj.dtypes.values.tolist()])
        except Exception as e:  # noqa
            s = dict(s, dtypes='raise:' + type(e).__name__)
    if isinstance(obj, IndexBase):
        s = dict(s, lookups=_lookups(obj))
    elif hasattr(obj, 'index') and isinstance(getattr(obj, 'index', None), IndexBase):
        s = dict(s, lookups=[_lookups(obj.index)] + ([_lookups(obj.columns)] if isinstance(getattr(obj, 'columns', None), IndexBase) else []))
    return s

from worlds.base import WorldBase, SimulatedFailure, call, enc, dec
from static_frame.core.index_base import IndexBase

KINDS = ['Series', 'Frame', 'Index', 'IndexDate', 'IndexHierarchy', 'SeriesHE', 'FrameHE']
ROWL = ['p', 'q', 'r', 's', 't', 'u']
COLL = ['A', 'B', 'C', 'D']
SENTINELS = {'i': 987654, 'f': 987654.5, 'U': 'ZZ', 'b': None, 'O': 'ZZ', 'M': '1999-09-09'}

# argument patterns tried for members whose signature needs arguments (JSON-able, decoded by _arg)
PATTERNS = [
    [], [0], [1], [2], ['A'], ['p'], [[0]], [[0, 1]], [{'slice': [0, 2]}], [{'np': 'float'}], [{'np': 'str'}], [{'np': 'object'}],
    [{'fn': 'ident'}], [{'fn': 'str'}], [0, 1], [1, 0], [{'dict': 1}], [{'bools': 1}], [{'self': 1}], [{'kw': {'axis': 0}}], [{'kw': {'axis': 1}}],
    [{'nan': 1}], [['A', 'B']], [['p', 'q']], [{'kw': {'fill_value': 0}}], [-1], [{'arr': 1}], [{'kw': {'ascending': False}}], [{'tuple': ['A', 1]}],
]
SKIP_MEMBERS = {'to_clipboard', 'from_clipboard', 'to_xlsx', 'to_hdf5', 'to_parquet', 'to_arrow', 'to_msgpack', 'to_xarray', 'to_pandas',
                'interface', 'to_csv', 'to_tsv', 'to_sqlite', 'to_pickle', 'to_zip_csv', 'to_zip_tsv', 'to_zip_pickle', 'to_zip_parquet',
                'to_html_datatables', 'from_pandas', 'to_delimited', 'to_latex', 'to_markdown', 'to_rst', 'to_html', 'STATIC', 'to_npz', 'to_npy'}


def ident(x):
    return x


def tostr(x):
    return str(x)


class AliasWorld(WorldBase):
    NAME = 'alias'
    _catalogue = {}

    @staticmethod
    def draw_config(ch, profile, tier):
        cfg = {
            'steps': ch.randint(3, 30 if tier == 'thorough' else 22),
            'alloc_cap': ch.choice([0, 2, 8, 1024]),
            'pool_max': ch.randint(3, 9),
            'p_write': ch.choice([0.1, 0.2, 0.35]),
        }
        if ch.chance(0.12):
            # catalogue sweep: one container, every public member in turn, every argument pattern until one is accepted
            cfg['sweep'] = {'kind': ch.choice(KINDS), 'dk': ch.choice(['i', 'f', 'U', 'b', 'O', 'M']), 'start': ch.randint(0, 400),
                            'nr': ch.randint(1, 4), 'nc': ch.randint(1, 3)}
            cfg['steps'] = 60
            cfg['pool_max'] = 4
        return cfg

    @staticmethod
    def nontrivial(stats):
        return stats.get('fault:adversary-write', 0) + stats.get('fault:failing-call', 0) + stats.get('op:call', 0) > 0

    def setup(self, log):
        super().setup(log)
        import static_frame as sf
        self.sf = sf
        self.locker = []      # caller-held input arrays: dict(arr, note)
        self.handed = []      # arrays handed out by the library
        self.static_types = (sf.Series, sf.Frame, sf.Index, sf.IndexHierarchy)
        self.go_sources = []
        self._current = None

    def state_hash(self):
        return h64(canon([[h, e.extra['key']] for h, e in sorted(self.ents.items())] + [len(self.locker)]))

    @classmethod
    def catalogue(cls, sf, kind):
        if kind not in cls._catalogue:
            c = getattr(sf, kind)
            names = sorted(n for n in dir(c) if not n.startswith('_') and n not in SKIP_MEMBERS and not n.startswith('from_'))
            cls._catalogue[kind] = names
        return cls._catalogue[kind]

    # ------------------------------------------------------------------ generation
    def gen_op(self, ch):
        sw = self.config.get('sweep')
        if sw:
            if not getattr(self, '_sweep_h', None) or self._sweep_h not in self.ents:
                op = self.gen_new(ch)
                op.update({'kind': sw['kind'], 'dk': sw['dk'], 'nr': sw['nr'], 'nc': sw['nc']})
                self._sweep_h = op['out']
                self._sweep_i = 0
                return op
            names = self.catalogue(self.sf, self.ents[self._sweep_h].extra['kind'])
            i = (sw['start'] + self._sweep_i) % len(names)
            self._sweep_i += 1
            return {'op': 'call', 'h': self._sweep_h, 'member': names[i], 'pat': 0, 'try_all': True, 'sweep': True}
        hs = self.handles()
        if not hs or (len(hs) < 2 and ch.chance(0.6)):
            return self.gen_new(ch)
        w = [('call', 10), ('new', 2 if len(hs) < self.config['pool_max'] else 0.2), ('write', 10 * self.config['p_write'] if self.locker else 0),
             ('roundtrip', 1.5), ('selector', 4), ('operator', 2), ('write_out', 1 if self.handed else 0), ('drop', 0.5 if len(hs) > 3 else 0),
             ('mutate_attempt', 1), ('go_grow', 2), ('grow_source', 2 if self.go_sources else 0)]
        what = ch.weighted(w)
        if what == 'new':
            return self.gen_new(ch)
        if what == 'write':
            i = ch.randint(0, len(self.locker) - 1)
            return {'op': 'write', 'arr': i, 'pos': ch.randint(0, 5)}
        if what == 'grow_source':
            return {'op': 'grow_source', 'i': ch.randint(0, len(self.go_sources) - 1), 'how': ch.choice(['setitem', 'extend', 'extend_items'])}
        if what == 'write_out':
            return {'op': 'write_out', 'arr': ch.randint(0, len(self.handed) - 1)}
        h = ch.choice(hs)
        e = self.ents[h]
        if what == 'call':
            names = self.catalogue(self.sf, e.extra['kind'])
            return {'op': 'call', 'h': h, 'member': ch.choice(names), 'pat': ch.randint(0, len(PATTERNS) - 1), 'try_all': ch.chance(0.7)}
        if what == 'roundtrip':
            return {'op': 'roundtrip', 'h': h, 'how': ch.choice(['pickle', 'deepcopy', 'copy', 'deepcopy_with_array', 'pickle_with_array'])}
        if what == 'selector':
            return {'op': 'selector', 'h': h, 'iface': ch.choice(['iloc', 'loc', 'getitem', 'drop_iloc', 'assign_iloc', 'mask_iloc', 'masked_array_iloc', 'bloc', 'assign_bloc', 'via_str', 'via_dt', 'via_T', 'via_fill_value', 'iter', 'assign_array', 'assign_array']),
                    'key': ch.choice([0, 1, {'slice': [0, 2]}, [0], [1, 0], {'bools': 1}, {'pair': [0, 0]}, {'pair': [{'slice': [0, 2]}, 0]}, {'pair': [[0, 1], [0]]},
                                      {'range': [0, 2]}, {'ixkey': [0, 1]}, {'serkey': [1, 0]}, True]),
                    'extra': ch.randint(0, 47)}
        if what == 'operator':
            return {'op': 'operator', 'h': h, 'which': ch.choice(['add', 'mul', 'eq', 'neg', 'invert', 'abs', 'matmul', 'lt', 'radd', 'self', 'floordiv', 'and', 'round', 'round1', 'rmatmul', 'add_td', 'sub_td', 'add_td64', 'sub_dt64', 'radd_td']),
                    'other_h': ch.choice(hs)}
        if what == 'go_grow':
            return {'op': 'go_grow', 'h': h, 'how': ch.choice(['to_frame_go', 'ctor_go', 'to_frame_go_twice', 'columns_go', 'index_go']), 'grow': ch.choice(['setitem', 'extend', 'extend_items', 'append'])}
        if what == 'mutate_attempt':
            return {'op': 'mutate_attempt', 'h': h, 'how': ch.choice(['setitem', 'setattr_name', 'delitem', 'iloc_assign', 'loc_assign', 'setattr_values', 'delattr', 'values_fill', 'index_setitem', 'inplace_add', 'ctor_own_data_fail'])}
        return {'op': 'drop', 'h': h}

    def gen_new(self, ch):
        kind = ch.weighted([('Series', 4), ('Frame', 6), ('Index', 2), ('IndexDate', 0.7), ('IndexHierarchy', 1.5), ('SeriesHE', 0.5), ('FrameHE', 0.7)])
        nr = ch.weighted([(0, 1), (1, 1), (2, 3), (3, 4), (4, 2)])
        nc = ch.weighted([(0, 0.5), (1, 2), (2, 4), (3, 3)])
        dk = ch.choice(['i', 'f', 'U', 'b', 'O', 'M'])
        op = {'op': 'new', 'kind': kind, 'out': self.next_h, 'nr': nr, 'nc': nc, 'dk': dk,
              'writeable': ch.chance(0.8), 'index_array': ch.chance(0.6), 'iw': ch.chance(0.8),
              'layout': ch.choice(['2d', 'columns', 'mixed', 'fortran', 'view', 'strided']),
              'route': ch.randint(0, 27), 'name': ch.choice([None, 'nm'])}
        return op

    # ------------------------------------------------------------------ helpers
    def _mk_array(self, n, dk, writeable, shape2=None, layout='2d'):
        total = n if shape2 is None else n * shape2
        if dk == 'i':
            a = np.arange(10, 10 + total, dtype=np.int64)
        elif dk == 'f':
            a = np.arange(total, dtype=float) + 0.5
        elif dk == 'U':
            a = np.array(['s%d' % i for i in range(total)], dtype=str) if total else np.array([], dtype=str)
        elif dk == 'b':
            a = np.array([i % 2 == 0 for i in range(total)], dtype=bool)
        elif dk == 'M':
            a = np.array(['2020-01-%02d' % (i % 28 + 1) for i in range(total)], dtype='datetime64[D]') if total else np.array([], dtype='datetime64[D]')
            if total > 28:
                a = np.arange(total).astype('timedelta64[D]') + np.datetime64('2020-01-01')
        else:
            a = np.array([('o%d' % i if i % 2 else i) for i in range(total)], dtype=object) if total else np.array([], dtype=object)
        if shape2 is None and layout in ('view', 'strided', 'mixed') and total and writeable:
            # the caller keeps a bigger buffer and hands in a window on it: freezing the window does not freeze the buffer
            base = np.concatenate([a, a, a])
            self._keep(base, 'base buffer of a 1-D window')
            a = base[total: 2 * total]
        if shape2 is not None:
            a = a.reshape(n, shape2)
            if layout == 'fortran':
                a = np.asfortranarray(a)
            elif layout == 'view' and n:
                big = np.concatenate([a, a])
                a = big[:n]
        a.flags.writeable = writeable
        return a

    def _keep(self, a, note):
        self.locker.append({'arr': a, 'note': note, 'orig': a.copy() if a.dtype != object else a.copy()})
        return a

    def _arg(self, spec, e):
        obj = e.obj
        if isinstance(spec, dict):
            if 'slice' in spec:
                return slice(*spec['slice'])
            if 'range' in spec:
                return range(*spec['range'])  # iterable keys that are neither lists nor arrays
            if 'ixkey' in spec:
                return self.sf.Index(spec['ixkey'])
            if 'serkey' in spec:
                return self.sf.Series(spec['serkey'])
            if 'np' in spec:
                return {'float': float, 'str': str, 'object': object}[spec['np']]
            if 'fn' in spec:
                return ident if spec['fn'] == 'ident' else tostr
            if 'dict' in spec:
                return {0: 1}
            if 'bools' in spec:
                st_, n = call(len, obj)
                n = n if st_ == 'ok' else 0
                return np.array([i % 2 == 0 for i in range(n)], dtype=bool)
            if 'self' in spec:
                return obj
            if 'nan' in spec:
                return float('nan')
            if 'arr' in spec:
                st_, n = call(len, obj)
                n = n if st_ == 'ok' else 0
                a = np.arange(n)
                self._keep(a, 'argument')
                return a
            if 'tuple' in spec:
                return tuple(spec['tuple'])
            if 'pair' in spec:
                return tuple(self._arg(x, e) for x in spec['pair'])
        return spec

    # ------------------------------------------------------------------ application
    def apply(self, op, dec_):
        import warnings
        self.opstat(op['op'])
        with warnings.catch_warnings():
            warnings.simplefilter('ignore')
            out = getattr(self, 'do_' + op['op'])(op, dec_)
            self.check_all(op)
        return out

    def finish(self):
        self.check_all({'op': 'finish'})

    def quarantine(self, op):
        objs = []
        for h in (self._current, op.get('h'), op.get('out')):
            if h is not None and h in self.ents:
                objs.append(self.ents[h].obj)
                del self.ents[h]
        for h in list(self.ents):  # a method may have returned the very same object
            if any(self.ents[h].obj is o for o in objs):
                del self.ents[h]
        self._current = None

    def adopt(self, obj, origin, h=None):
        sf = self.sf
        if not isinstance(obj, self.static_types) or not getattr(obj, 'STATIC', True):
            return None
        if len(self.ents) >= self.config['pool_max'] + 3:
            return None
        kind = type(obj).__name__
        if kind not in KINDS:
            kind = 'Index' if isinstance(obj, sf.Index) else kind
            if isinstance(obj, sf.IndexHierarchy):
                kind = 'IndexHierarchy'
        st, s = call(snap, obj)
        if st == 'raise':
            return None
        e = self.add('c', obj, None, False, origin=origin, h=h)
        e.extra['kind'] = kind if kind in KINDS else ('Index' if isinstance(obj, IndexBase) else 'Series')
        e.extra['snap'] = s
        # the state key leaves out label order and cells: set-like results of the library (union of unorderable labels in
        # operator alignment) depend on the interpreter's hash seed, and the digest must not
        e.extra['key'] = h64(canon([e.extra['kind'], origin, list(s.get('shape', [len(s.get('labels', []))]))]))
        self._check_arrays_of(e, origin, 'birth')
        return e

    # -- reachable arrays
    def _arrays_of(self, obj):
        sf = self.sf
        out = []

        def add(name, fn):
            st, a = call(fn)
            if st == 'ok' and isinstance(a, np.ndarray):
                out.append((name, a))
        if isinstance(obj, sf.Frame):
            add('values', lambda: obj.values)
            add('index.values', lambda: obj.index.values)
            add('index.positions', lambda: obj.index.positions)
            add('columns.values', lambda: obj.columns.values)
            add('columns.positions', lambda: obj.columns.positions)
            st, arrs = call(lambda: list(obj.iter_array(axis=0)))
            if st == 'ok':
                for j, a in enumerate(arrs[:6]):
                    out.append((f'iter_array(0)[{j}]', a))
            st, arrs = call(lambda: list(obj.iter_array(axis=1)))
            if st == 'ok':
                for j, a in enumerate(arrs[:3]):
                    out.append((f'iter_array(1)[{j}]', a))
        elif isinstance(obj, sf.Series):
            add('values', lambda: obj.values)
            add('index.values', lambda: obj.index.values)
            add('index.positions', lambda: obj.index.positions)
        elif isinstance(obj, sf.IndexHierarchy):
            add('values', lambda: obj.values)
            add('positions', lambda: obj.positions)
            st, d = call(lambda: obj.depth)
            if st == 'ok':
                for k in range(d):
                    add(f'values_at_depth({k})', lambda k=k: obj.values_at_depth(k))
        elif isinstance(obj, IndexBase):
            add('values', lambda: obj.values)
            add('positions', lambda: obj.positions)
        return out

    def _shares_input(self, a):
        for item in self.locker:
            b = item['arr']
            try:
                if b.flags.writeable and np.shares_memory(a, b):
                    return True
            except Exception:
                pass
        return False

    def _caller_memory(self, b):
        for item in self.locker:
            try:
                if np.shares_memory(b, item['arr']):
                    return True
            except Exception:
                pass
        return False

    def _writeable_base(self, a):
        '''The first writeable ndarray in the .base chain of a read-only array that is not one of the
        caller's own buffers (those are the alias oracle's business): a write through it is a write
        into the container.'''
        b = a.base
        n = 0
        while isinstance(b, np.ndarray) and n < 8:
            if b.flags.writeable and b.size:
                if self._caller_memory(b):
                    return None
                seen = self.__dict__.setdefault('_seen_bases', [])
                if any(b is x for x in seen):
                    return None  # already reported / counted at the place it first appeared
                seen.append(b)
                return b
            b = b.base
            n += 1
        return None

    def _check_arrays_of(self, e, site, cls):
        for name, a in self._arrays_of(e.obj):
            if a.flags.writeable:
                alias = self._shares_input(a)
                raise Violation('C01.readonly.alias' if alias else 'C01.readonly', f"{type(e.obj).__name__}.{name}", 'after:' + site, f'array obtainable from the container is writeable (shares a caller buffer: {alias})')
            if self._writeable_base(a) is not None:
                fam = type(e.obj).__name__.replace('HE', '')
                self._base_violation(f'{fam}.{name}', 'born:' + e.origin, 'array obtainable from the container is a read-only view of a writeable library-owned buffer (ndarray.base)')

    def _base_violation(self, site, cls, detail):
        sweep = getattr(self, 'base_sweep', None)
        if sweep is not None:
            sweep.add((site, cls))
            return
        raise Violation('C01.readonly.base', site, cls, detail)

    def collect(self, r, site, cls, depth=0):
        '''Walk a result: arrays must be read-only, static containers join the pool.'''
        sf = self.sf
        if depth > 5:
            return
        if isinstance(r, np.ma.MaskedArray):
            return  # masked arrays are NumPy's own mutable type, requested explicitly
        if isinstance(r, np.ndarray):
            if r.flags.writeable and r.ndim > 0:
                alias = any(np.shares_memory(r, a) for e in self.ents.values() for _, a in self._arrays_of(e.obj)[:4]) if r.size else False
                fam = site.replace('SeriesHE.', 'Series.').replace('FrameHE.', 'Frame.').replace('IndexDate.', 'Index.')
                raise Violation('C01.readonly.alias' if alias else 'C01.readonly.fresh', site if alias else fam, cls if alias else '',
                                f'returned ndarray (dtype {r.dtype}, shape {r.shape}) is writeable' + (' and shares memory with a live container' if alias else ''))
            if r.ndim > 0 and r.size and self._writeable_base(r) is not None:
                fam = site.replace('SeriesHE.', 'Series.').replace('FrameHE.', 'Frame.').replace('IndexDate.', 'Index.')
                self._base_violation(fam, 'returned', f'returned ndarray (dtype {r.dtype}, shape {r.shape}) is a read-only view of a writeable library-owned buffer (ndarray.base)')
            if len(self.handed) < 40 and r.size:
                self.handed.append(r)
            return
        if isinstance(r, self.static_types):
            if getattr(r, 'STATIC', True):
                e = self.adopt(r, site)
                if e is None:
                    for name, a in self._arrays_of(r):
                        if a.flags.writeable:
                            raise Violation('C01.readonly', f'{type(r).__name__}.{name}', 'after:' + site, 'array obtainable from a returned container is writeable')
            return
        if isinstance(r, (tuple, list)):
            for x in list(r)[:30]:
                self.collect(x, site, cls, depth + 1)
            return
        if isinstance(r, dict):
            for x in list(r.values())[:30]:
                self.collect(x, site, cls, depth + 1)
            return
        if inspect.isgenerator(r) or (hasattr(r, '__next__') and hasattr(r, '__iter__')):
            i = 0
            while i <= 30:
                st, x = call(next, r)
                if st == 'raise':
                    if not isinstance(x, StopIteration):
                        self.fault('failing-call')
                    break
                self.collect(x, site, cls, depth + 1)
                i += 1
            return
        if type(r).__module__.startswith('static_frame') and hasattr(r, 'values') and not isinstance(r, type):
            # Bus / Batch / Quilt / display objects etc. are not followed
            return

    def check_all(self, op):
        for h in self.handles():
            e = self.ents[h]
            self._current = h
            st, s = call(snap, e.obj)
            if st == 'raise':
                raise Violation('C01.snapshot', e.origin, 'changed-by:' + self._site(op), f'container became unreadable: {type(s).__name__}: {s}')
            if s != e.extra['snap']:
                oracle = 'C01.alias' if op['op'] == 'write' else 'C01.snapshot'
                raise Violation(oracle, e.origin, 'changed-by:' + self._site(op), first_diff(e.extra['snap'], s))
            self._check_arrays_of(e, self._site(op), '')
        self._current = None

    def _site(self, op):
        if op['op'] == 'call':
            return 'call:' + op.get('member', '')
        if op['op'] == 'selector':
            return 'selector:' + op.get('iface', '')
        if op['op'] == 'operator':
            return 'operator:' + op.get('which', '')
        return op['op']

    # ------------------------------------------------------------------ ops
    def do_new(self, op, dec_):
        sf = self.sf
        kind, nr, nc, dk = op['kind'], op['nr'], op['nc'], op['dk']
        w, iw = op['writeable'], op['iw']
        route = op['route']
        name = op.get('name')

        def index_arg(n, axis):
            labels = (ROWL if axis == 0 else COLL)[:n]
            if len(labels) < n:
                labels = labels + ['x%d' % i for i in range(n - len(labels))]
            if op['index_array']:
                a = np.array(labels, dtype=str) if n else np.array([], dtype=str)
                if n and op['layout'] in ('view', 'strided') and iw:  # a read-only window is outside the claim
                    base = np.concatenate([a, a])
                    self._keep(base, 'base buffer of a label window')
                    a = base[:n]
                a.flags.writeable = iw
                return self._keep(a, f'{kind} axis{axis} labels')
            return labels

        def build():
            if kind in ('Series', 'SeriesHE'):
                cls = getattr(sf, kind)
                a = self._keep(self._mk_array(nr, dk, w, layout=op['layout']), 'Series values')
                r = route % 6
                if r == 5 and nr:
                    # one element for every label, given as a 0-dimensional array the caller keeps
                    z = self._keep(self._mk_array(1, dk, w).reshape(()), 'Series 0-d value')
                    return cls(z, index=index_arg(nr, 0), name=name), 'Series(array0d)'
                if r == 0:
                    return cls(a, index=index_arg(nr, 0), name=name), 'Series(array)'
                if r == 1:
                    return cls(a, index=sf.Index(index_arg(nr, 0)), name=name, own_index=True), 'Series(array,own_index)'
                if r == 2:
                    return cls(a, name=name), 'Series(array,auto-index)'
                if r == 3:
                    return cls.from_concat([cls(a, index=index_arg(nr, 0))], name=name), 'Series.from_concat'
                return cls(a, index=index_arg(nr, 0), dtype=a.dtype, name=name), 'Series(array,dtype)'
            if kind in ('Frame', 'FrameHE'):
                cls = getattr(sf, kind)
                r = route % 14
                layout = op['layout']
                if r == 0:
                    a = self._keep(self._mk_array(nr, dk, w, nc, layout), 'Frame 2d values')
                    return cls(a, index=index_arg(nr, 0), columns=index_arg(nc, 1), name=name), f'Frame(array2d:{layout})'
                cols = [self._keep(self._mk_array(nr, (dk if layout != 'mixed' else 'ifUbOM'[j % 6]), w, layout=layout), f'Frame column {j}') for j in range(nc)]
                labels = COLL[:nc]
                if r == 1:
                    if op['layout'] in ('view', 'fortran', 'mixed'):
                        # explicit dtypes, equal to what the arrays already are (a tempting no-copy fast path)
                        return cls.from_items(zip(labels, cols), index=index_arg(nr, 0), name=name, dtypes=[c.dtype for c in cols]), 'Frame.from_items(arrays,dtypes)'
                    return cls.from_items(zip(labels, cols), index=index_arg(nr, 0), name=name), 'Frame.from_items(arrays)'
                if r == 2:
                    if op['layout'] in ('view', 'strided'):
                        return cls.from_dict(dict(zip(labels, cols)), index=index_arg(nr, 0), name=name, dtypes={l: c.dtype for l, c in zip(labels, cols)}), 'Frame.from_dict(arrays,dtypes)'
                    return cls.from_dict(dict(zip(labels, cols)), index=index_arg(nr, 0), name=name), 'Frame.from_dict(arrays)'
                if r == 3:
                    return cls.from_concat([sf.Series(c, index=index_arg(nr, 0), name=l) for l, c in zip(labels, cols)], axis=1, name=name), 'Frame.from_concat(series)'
                if r == 4:
                    a = self._keep(self._mk_array(nr, dk, w, nc, layout), 'Frame records')
                    return cls.from_records(a, index=index_arg(nr, 0), columns=index_arg(nc, 1), name=name), 'Frame.from_records(array2d)'
                if r == 5:
                    a = self._keep(self._mk_array(nr, dk, w, nc, layout), 'Frame 2d values')
                    return cls(a, index=sf.Index(index_arg(nr, 0)), columns=sf.Index(index_arg(nc, 1)), own_index=True, own_columns=True, name=name), 'Frame(array2d,own_index,own_columns)'
                if r == 6:
                    a = self._keep(self._mk_array(nr, dk, w, nc, layout), 'Frame 2d values')
                    base = sf.Frame(a, index=index_arg(nr, 0), columns=index_arg(nc, 1))
                    return cls(base, name=name), 'Frame(Frame(array2d))'
                if r == 8:
                    # block consolidation is another place where "the array was just created" may be assumed
                    return cls.from_items(zip(labels, cols), index=index_arg(nr, 0), name=name, consolidate_blocks=True), 'Frame.from_items(arrays,consolidate_blocks)'
                if r == 9:
                    # a static frame converted from a grow-only one; the grow-only source stays with the caller and grows later
                    g = sf.FrameGO.from_items(zip(labels, cols), index=index_arg(nr, 0), name=name)
                    self.go_sources.append(g)
                    how = (nr + nc) % 3  # independent of the route number (route % 14 == 9 never gave 1)
                    return (g.to_frame() if how == 0 else cls(g) if how == 1 else g.to_frame_he().to_frame()), 'Frame(from grow-only source)'
                if r == 13:
                    # converted from a pandas DataFrame with nullable / string extension columns (to_numpy makes new buffers)
                    import pandas
                    df = pandas.DataFrame({'a': pandas.array([1, None, 3][:max(1, min(nr, 3))], dtype='Int64'),
                                           'b': pandas.array([True, None, False][:max(1, min(nr, 3))], dtype='boolean'),
                                           'c': ['x', 'y', 'z'][:max(1, min(nr, 3))]})
                    return cls.from_pandas(df, name=name), 'Frame.from_pandas(extension dtypes)'
                if r == 12:
                    # parsed from delimited text (a private buffer made by the parser): one row and several rows
                    import io
                    rows = max(1, nr)
                    text = ','.join(['ix'] + labels[:max(1, nc)]) + '\n' + ''.join(
                        ','.join([ROWL[i % len(ROWL)]] + [str(10 * i + j) for j in range(max(1, nc))]) + '\n' for i in range(rows if (nr + nc) % 2 else 1))
                    if layout in ('2d', 'columns', 'view'):
                        return cls.from_csv(io.StringIO(text), index_depth=1, name=name), 'Frame.from_csv(text,index)'
                    return cls.from_tsv(io.StringIO(text.replace(',', '\t')), name=name), 'Frame.from_tsv(text)'
                if r == 11:
                    # rows under a hierarchical index (group labels of several depths, level selections)
                    a = self._keep(self._mk_array(nr, dk, w, nc, layout), 'Frame 2d values')
                    ih = sf.IndexHierarchy.from_labels([('a' if i < (nr + 1) // 2 else 'b', i) for i in range(nr)]) if nr else None
                    return cls(a, index=ih, columns=index_arg(nc, 1), name=name), 'Frame(array2d,hierarchical index)'
                if r == 10:
                    if not nc or not nr:
                        raise SimulatedFailure('empty structured array')
                    sa = np.zeros(nr, dtype=[(l, 'i8' if j % 2 else 'f8') for j, l in enumerate(labels)])
                    for j, l in enumerate(labels):
                        sa[l] = np.arange(nr) + 10 * j
                    sa.flags.writeable = w
                    self._keep(sa, 'structured array')
                    # forms of dtypes= (each a tempting "astype copies anyway" shortcut) and an index taken from a field
                    form = {'2d': 'none', 'columns': 'single-i8', 'mixed': 'single-f8', 'fortran': 'list', 'view': 'mapping', 'strided': 'single-i8+index'}[layout]
                    kw = {}
                    if form.startswith('single-i8'):
                        kw['dtypes'] = np.int64
                    elif form == 'single-f8':
                        kw['dtypes'] = 'float64'
                    elif form == 'list':
                        kw['dtypes'] = [sa.dtype[j] for j in range(len(labels))]
                    elif form == 'mapping':
                        kw['dtypes'] = {labels[-1]: sa.dtype[len(labels) - 1]}
                    if form.endswith('+index') and nc > 1:
                        kw['index_depth'] = 1
                    if route % 3 == 0:
                        kw['consolidate_blocks'] = True  # consolidation joins only neighbouring columns of one dtype: the others stay what they were
                        form += '+consolidate'
                    return cls.from_structured_array(sa, name=name, **kw), f'Frame.from_structured_array({form})'
                a = self._keep(self._mk_array(nr, dk, w, nc, 'strided'), 'Frame strided values')
                v = a[:, ::2] if nc > 1 else a
                return cls(v, index=index_arg(nr, 0), name=name), 'Frame(strided view)'
            if kind == 'Index':
                a = self._keep(self._mk_array(nr, dk if dk != 'b' else 'i', w, layout=op['layout']), 'Index labels')
                r = route % 3
                if r == 0:
                    return sf.Index(a, name=name), 'Index(array)'
                if r == 1:
                    return sf.Index(a, name=name, dtype=a.dtype), 'Index(array,dtype)'
                if route % 2 and nr:
                    g = sf.IndexGO(a)
                    self.go_sources.append(g)
                    return sf.Index(g, name=name), 'Index(grow-only index)'
                return sf.Index(sf.Series(a)), 'Index(Series(array))'
            if kind == 'IndexDate':
                a = self._keep(self._mk_array(nr, 'M', w, layout=op['layout']), 'IndexDate labels')
                return sf.IndexDate(a, name=name), 'IndexDate(array)'
            # IndexHierarchy
            n = max(nr, 1)
            outer = np.array(['a', 'b', 'c'], dtype=str)[np.arange(n) // 2 % 3]
            a2 = np.empty((n, 2), dtype=object)
            a2[:, 0] = outer
            a2[:, 1] = np.arange(n)
            a2.flags.writeable = w
            self._keep(a2, 'IndexHierarchy labels')
            r = route % 5
            if r == 3:
                # depth 3, several outer labels: the nodes below the root carry offsets that derivations must not touch
                return sf.IndexHierarchy.from_product(('a', 'b'), (1, 2), tuple('xyz'[:max(1, min(n, 3))]), name=name), 'IndexHierarchy.from_product(depth3)'
            if r == 4:
                # levels given as grow-only indices the caller keeps (and grows later)
                g = sf.IndexGO(tuple('xyz'[:max(1, min(n, 3))]))
                self.go_sources.append(g)
                return sf.IndexHierarchy.from_product(sf.Index(('a', 'b')), g, name=name), 'IndexHierarchy.from_product(grow-only level)'
            if r == 0:
                return sf.IndexHierarchy.from_labels(a2, name=name), 'IndexHierarchy.from_labels(array2d)'
            if r == 1:
                inner = self._keep(self._mk_array(n, 'i', w), 'IndexHierarchy inner labels')
                return sf.IndexHierarchy.from_index_items([('a', sf.Index(inner))]), 'IndexHierarchy.from_index_items'
            f = sf.Frame(a2, columns=('x', 'y'))
            return f.set_index_hierarchy(('x', 'y'), drop=True).index, 'Frame.set_index_hierarchy'
        st, r = call(build)
        if st == 'raise':
            self.stats['construct_raise'] += 1
            self.fault('failing-call')
            return 'raise:' + type(r).__name__
        obj, origin = r
        e = self.adopt(obj, origin, h=op['out'])
        self.stats['new:' + origin.split('(')[0]] += 1
        return 'ok'

    def do_write(self, op, dec_):
        if not self.locker:
            return 'skip'
        item = self.locker[op['arr'] % len(self.locker)]
        a = item['arr']
        if not a.flags.writeable or a.size == 0:
            return 'readonly-input'
        k = a.dtype.kind
        pos = op.get('pos', 0) % a.size
        if a.dtype.names:
            try:
                for nm in a.dtype.names:
                    a[nm][pos] = 987654
            except Exception:
                return 'write-failed'
            self.fault('adversary-write')
            return 'written:' + item['note']
        try:
            if k == 'b':
                a.flat[pos] = not bool(a.flat[pos])
            elif k == 'M':
                a.flat[pos] = np.datetime64('1999-09-09')
            elif k in 'iu':
                a.flat[pos] = 987654
            elif k == 'f':
                a.flat[pos] = 987654.5
            else:
                a.flat[pos] = 'ZZ'
        except Exception:
            return 'write-failed'
        self.fault('adversary-write')
        return 'written:' + item['note']

    def do_write_out(self, op, dec_):
        a = self.handed[op['arr'] % len(self.handed)]
        if a.size == 0 or type(a) is not np.ndarray:
            return 'empty'
        try:
            a.flat[0] = a.flat[0]
        except ValueError as ex:
            if 'read-only' not in str(ex):
                return 'error'
            self.fault('write-to-handed-array-refused')
            return 'refused'
        except Exception:
            return 'error'
        raise Violation('C01.readonly', 'ndarray handed out earlier', 'write_out', f'assignment into an array the library handed out succeeded (dtype {a.dtype}, shape {a.shape})')

    def do_drop(self, op, dec_):
        if op['h'] in self.ents:
            del self.ents[op['h']]
        return 'ok'

    def do_roundtrip(self, op, dec_):
        e = self.get(op['h'])
        if e is None:
            return 'skip'
        how = op['how']
        site = f"{e.extra['kind']}.{how}"
        def with_array(fn):
            # the caller keeps one of the container's arrays next to the container in the structure it copies
            arrs = self._arrays_of(e.obj)
            held = arrs[0][1] if arrs else None
            out = fn({'cached': held, 'container': e.obj})
            return out['container']
        st, r = call({'pickle': lambda: pickle.loads(pickle.dumps(e.obj)), 'deepcopy': lambda: copy.deepcopy(e.obj), 'copy': lambda: copy.copy(e.obj),
                      'deepcopy_with_array': lambda: with_array(copy.deepcopy),
                      'pickle_with_array': lambda: with_array(lambda x: pickle.loads(pickle.dumps(x)))}[how])
        if st == 'raise':
            self.fault('failing-call')
            return 'raise:' + type(r).__name__
        st, s = call(snap, r)
        if st == 'raise' or s != e.extra['snap']:
            raise Violation('C01.roundtrip', site, '', 'round trip differs from the source: ' + (first_diff(e.extra['snap'], s) if st == 'ok' else repr(s)))
        for name, a in self._arrays_of(r):
            if a.flags.writeable:
                raise Violation('C01.roundtrip', site, 'writeable:' + name, 'array of the round-tripped container is writeable')
        self.adopt(r, site)
        return 'ok'

    def do_call(self, op, dec_):
        e = self.get(op['h'])
        if e is None:
            return 'skip'
        obj = e.obj
        member = op['member']
        kind = e.extra['kind']
        site = f'{kind}.{member}'
        st, attr = call(getattr, obj, member)
        if st == 'raise':
            self.fault('failing-call')
            return 'raise-attr:' + type(attr).__name__
        static = inspect.getattr_static(type(obj), member, None)
        is_method = inspect.isfunction(static) or isinstance(static, (classmethod, staticmethod)) or inspect.ismethoddescriptor(static)
        if not callable(attr) or isinstance(attr, type) or not is_method:
            # a property / data attribute (e.g. a name that happens to be a callable supplied by the caller) is read, not called
            self.stats['member_ok:' + site] += 1
            self.collect(attr, site, 'attribute')
            return 'attr'
        pats = list(range(len(PATTERNS))) if op.get('try_all') else [op['pat'] % len(PATTERNS)]
        start = op['pat'] % len(PATTERNS)
        pats = pats[start:] + pats[:start]
        tried = 0
        try:
            seeded = 'seed' in inspect.signature(attr).parameters
        except (TypeError, ValueError):
            seeded = False
        for pi in (pats if op.get('sweep') else pats[:12]):
            spec = PATTERNS[pi]
            args, kw = [], {}
            for sp in spec:
                if isinstance(sp, dict) and 'kw' in sp:
                    kw.update(sp['kw'])
                else:
                    args.append(self._arg(sp, e))
            if seeded:
                kw['seed'] = 7  # the library's own randomness is a seam too: never left to np.random's global state
            st, r = call(attr, *args, **kw)
            tried += 1
            if st == 'ok':
                self.stats['member_ok:' + site] += 1
                self.collect(r, site, 'args:%d' % len(spec))
                return 'ok:pat%d' % pi
            self.fault('failing-call')
            # a failing call must leave everything as it was: checked by check_all after the step
        return 'all-raise'

    def do_selector(self, op, dec_):
        e = self.get(op['h'])
        if e is None:
            return 'skip'
        obj = e.obj
        iface = op['iface']
        key = self._arg(op['key'], e)
        site = f"{e.extra['kind']}.{iface}"
        x = op.get('extra', 0)

        def run():
            if iface == 'iloc':
                return obj.iloc[key]
            if iface == 'loc':
                return obj.loc[obj.index.values[0] if len(obj.index) else 0] if hasattr(obj, 'index') else obj.loc[obj.values[0]]
            if iface == 'getitem':
                return obj[key]
            if iface == 'drop_iloc':
                return obj.drop.iloc[key]
            if iface == 'assign_iloc':
                return obj.assign.iloc[key](0)
            if iface == 'assign_array':
                # assignment of an array the caller keeps (and writes to later), over whole columns / rows / a Series
                n = len(obj.index) if hasattr(obj, 'index') else len(obj)
                if isinstance(obj, self.sf.Frame):
                    k = min(2, obj.shape[1])
                    a = self._keep(np.arange(n * k, dtype=float).reshape(n, k) + 0.25, 'assigned 2-D value')
                    return [obj.assign.iloc[:, 0:k](a), obj.assign[list(obj.columns[:k])](a), obj.assign.loc[:, list(obj.columns[:k])](a)][x % 3]
                if isinstance(obj, self.sf.Series):
                    a = self._keep(np.arange(n, dtype=float) + 0.25, 'assigned 1-D value')
                    return obj.assign.iloc[:](a) if x % 2 else obj.assign.loc[list(obj.index)](a)
                return None
            if iface == 'mask_iloc':
                return obj.mask.iloc[key]
            if iface == 'masked_array_iloc':
                return obj.masked_array.iloc[key]
            if iface == 'bloc':
                return obj.bloc[obj > 0]
            if iface == 'assign_bloc':
                return obj.assign.bloc[obj == obj](0)
            if iface == 'via_str':
                return [obj.via_str.upper, obj.via_str.len, lambda: obj.via_str.ljust(4), lambda: obj.via_str.startswith('s'), lambda: obj.via_str[0],
                        obj.via_str.title, lambda: obj.via_str.replace('s', 't')][x % 7]()
            if iface == 'via_dt':
                return [lambda: obj.via_dt.year, lambda: obj.via_dt.month, lambda: obj.via_dt.day, lambda: obj.via_dt.weekday(), lambda: obj.via_dt.isoformat(),
                        lambda: obj.via_dt.strftime('%Y'), lambda: obj.via_dt.fromisoformat()][x % 7]()
            if iface == 'via_T':
                return obj.via_T * np.arange(len(obj.index))
            if iface == 'via_fill_value':
                return obj.via_fill_value(0) + obj
            # iteration interfaces
            names = [n for n in dir(obj) if n.startswith('iter_')]
            if not names:
                return None
            n = names[(x // 3) % len(names)]
            node = getattr(obj, n)
            mode = x % 3
            if 'group_labels' in n and mode == 2:
                # several depths at once: the group label is built from a row of a label array
                it = node([0, 1] if getattr(getattr(obj, 'index', obj), 'depth', 1) > 1 else [0])
            else:
                try:
                    it = node()
                except TypeError:
                    it = node(0) if 'group' in n else node(size=2)
            return [it.apply(ident) if mode == 1 else list(it)[:5]]
        st, r = call(run)
        if st == 'raise':
            self.fault('failing-call')
            return 'raise:' + type(r).__name__
        self.stats['member_ok:' + site] += 1
        self.collect(r, site, 'key')
        return 'ok'

    def do_operator(self, op, dec_):
        e = self.get(op['h'])
        o = self.get(op.get('other_h'))
        if e is None:
            return 'skip'
        a = e.obj
        b = o.obj if o is not None else a
        w = op['which']
        site = f"{e.extra['kind']}.operator:{w}"
        fns = {'add': lambda: a + 1, 'mul': lambda: a * 2, 'eq': lambda: a == b, 'neg': lambda: -a, 'invert': lambda: ~a, 'abs': lambda: abs(a),
               'matmul': lambda: a @ b, 'rmatmul': lambda: list(range(len(a))) @ a, 'round': lambda: round(a), 'round1': lambda: round(a, 1), 'lt': lambda: a < b, 'radd': lambda: 1 + a, 'self': lambda: a + b, 'floordiv': lambda: a // 2, 'and': lambda: a & b,
               # durations and dates as the other operand: each operand type has its own branch in the date indices
               'add_td': lambda: a + datetime.timedelta(days=1), 'sub_td': lambda: a - datetime.timedelta(days=2), 'radd_td': lambda: datetime.timedelta(days=1) + a,
               'add_td64': lambda: a + np.timedelta64(1, 'D'), 'sub_dt64': lambda: a - np.datetime64('2019-12-31')}
        if w in ('matmul', 'rmatmul'):
            # NumPy 2.5.3 corrupts reference counts when an object-dtype matmul raises half way (segfault later, reproduced
            # without static-frame's help being needed); only numeric operands are multiplied
            def numeric(x):
                st_, sn = call(snap, x)
                if st_ == 'raise':
                    return False
                kinds = [c[0] for c in sn.get('cols', [])] + ([sn['dt']] if 'dt' in sn else []) + list(sn.get('dts') or [])
                return bool(kinds) and all(k and k[0] in 'ifb' for k in kinds)
            if not (numeric(a) and numeric(b)):
                return 'skip'
        st, r = call(fns[w])
        if st == 'raise':
            self.fault('failing-call')
            return 'raise:' + type(r).__name__
        self.stats['member_ok:' + site] += 1
        self.collect(r, site, 'operator')
        return 'ok'

    def do_grow_source(self, op, dec_):
        '''The grow-only frame a static one was converted from grows: nothing may show through the static one.'''
        sf = self.sf
        if not self.go_sources:
            return 'skip'
        g = self.go_sources[op['i'] % len(self.go_sources)]
        if isinstance(g, IndexBase):
            st, r = call(lambda: g.append(('ZZ%d' % len(g)) if g.dtype.kind in 'UO' else (10 ** 6 + len(g)) if g.dtype.kind in 'if' else np.datetime64('2031-01-01') + len(g)))
            if st == 'raise':
                self.fault('failing-call')
                return 'raise:' + type(r).__name__
            self.fault('grow-only-source-grown')
            return 'ok'
        n = len(g.index)
        key = 'ZZ%d' % g.shape[1]

        def run():
            if op['how'] == 'setitem':
                g[key] = 0
            elif op['how'] == 'extend':
                g.extend(sf.Frame.from_dict({key: list(range(n)), key + 'b': list(range(n))}, index=g.index))
            else:
                g.extend_items(((key, list(range(n))),))
        st, r = call(run)
        if st == 'raise':
            self.fault('failing-call')
            return 'raise:' + type(r).__name__
        self.fault('grow-only-source-grown')
        return 'ok'

    def do_go_grow(self, op, dec_):
        '''Convert a static container to its grow-only form and grow that: nothing may show through the static one.'''
        sf = self.sf
        e = self.get(op['h'])
        if e is None:
            return 'skip'
        obj = e.obj
        how, grow = op['how'], op['grow']

        def run():
            if isinstance(obj, sf.Frame):
                if how == 'to_frame_go':
                    g = obj.to_frame_go()
                elif how == 'to_frame_go_twice':
                    g = obj.to_frame_go().to_frame_go()
                elif how == 'columns_go':
                    g = sf.IndexGO(obj.columns) if obj.columns.depth == 1 else sf.IndexHierarchyGO(obj.columns)
                elif how == 'index_go':
                    g = sf.IndexGO(obj.index) if obj.index.depth == 1 else sf.IndexHierarchyGO(obj.index)
                else:
                    g = sf.FrameGO(obj)
            elif isinstance(obj, sf.Series):
                g = obj.to_frame_go() if how != 'index_go' else (sf.IndexGO(obj.index) if obj.index.depth == 1 else sf.IndexHierarchyGO(obj.index))
            elif isinstance(obj, sf.IndexHierarchy):
                g = sf.IndexHierarchyGO(obj)
            else:
                g = obj._MUTABLE_CONSTRUCTOR(obj) if hasattr(obj, '_MUTABLE_CONSTRUCTOR') else sf.IndexGO(obj)
            if isinstance(g, sf.Frame):
                n = len(g.index)
                key = 'ZZnew' if g.columns.depth == 1 else tuple(['ZZnew'] * g.columns.depth)
                if grow == 'setitem':
                    g[key] = 0
                elif grow == 'extend':
                    g.extend(sf.Frame.from_dict({'ZZa': list(range(n)), 'ZZb': list(range(n))}, index=g.index) if g.columns.depth == 1
                             else sf.Series(list(range(n)), index=g.index, name=key))
                elif grow == 'extend_items':
                    g.extend_items(((key, list(range(n))),))
                else:
                    g[key] = np.arange(n)
            elif isinstance(g, sf.IndexHierarchy):
                g.append(tuple(['ZZnew'] * g.depth))
            else:
                g.append('ZZnew' if g.dtype.kind != 'M' else np.datetime64('1999-09-09'))
            return g
        st, r = call(run)
        if st == 'raise':
            self.fault('failing-call')
            return 'raise:' + type(r).__name__
        self.fault('grow-only-conversion-grown')
        return 'ok'

    def do_mutate_attempt(self, op, dec_):
        '''Direct mutation attempts through the public surface: each must raise or change nothing (checked by check_all).'''
        e = self.get(op['h'])
        if e is None:
            return 'skip'
        obj = e.obj
        how = op['how']
        sf = self.sf

        def run():
            if how == 'setitem':
                obj[0] = 1
            elif how == 'setattr_name':
                obj.name = 'changed'
            elif how == 'delitem':
                del obj[0]
            elif how == 'iloc_assign':
                obj.iloc[0] = 1
            elif how == 'loc_assign':
                obj.loc[0] = 1
            elif how == 'setattr_values':
                obj.values = None
            elif how == 'delattr':
                del obj.index
            elif how == 'values_fill':
                obj.values.fill(0)
            elif how == 'index_setitem':
                (obj.index if hasattr(obj, 'index') else obj).values[0] = 'ZZ'
            elif how == 'inplace_add':
                v = obj.values
                v += 1
            elif how == 'ctor_own_data_fail':
                # a constructor call that takes over the container's own array and then fails (wrong label count)
                v = obj.values
                bad = list(range(len(v) + 1))
                if isinstance(obj, sf.Frame):
                    sf.Frame(v, index=bad, own_data=True)
                elif isinstance(obj, sf.Series):
                    sf.Series(v, index=bad, own_index=False)
                else:
                    sf.Series(np.arange(len(v) + 1), index=obj, own_index=True)
        st, r = call(run)
        if st == 'raise':
            self.fault('mutation-attempt-refused')
            return 'refused:' + type(r).__name__
        self.fault('mutation-attempt-accepted')
        st, s2 = call(snap, obj)
        if st == 'raise' or s2 != e.extra['snap']:
            self._current = e.h
            fam = e.extra['kind'].replace('HE', '')
            raise Violation('C01.snapshot', f'{fam}.{how}', 'direct-mutation-accepted', 'a direct mutation attempt through the public surface changed the container')
        return 'accepted'
