'''Hierarchical index operations of GrowWorld.'''
import copy
import pickle

import numpy as np
from static_frame.core.index_base import IndexBase

from sim.core import Violation
from sim.snap import norm, norm_list, snap_index, first_diff, arr_cells
from worlds.base import SimulatedFailure, enc, dec, call
from worlds.gmodel import IxM, is_go, unhashable, expected_index_snap, learn_index, is_tree_order
from worlds.grow_index import raw_duplicates, unorderable_mix

LEVEL_POOLS = {
    'str': ['a', 'b', 'c', 'd'],
    'int': [1, 2, 3, 4],
    'date': ['2020-01-01', '2020-01-02', '2020-01-03', '2020-01-04'],
    'str2': ['x', 'y', 'z'],
}
IH_DERIVES = ['copy', 'copy_copy', 'deepcopy', 'pickle', 'static', 'go', 'rename', 'level_add', 'level_drop',
              'flat', 'iloc_sel', 'loc_sel', 'roll', 'sort', 'drop_iloc', 'head', 'tail', 'astype',
              'series_index', 'frame_index', 'union', 'intersection', 'rehierarch', 'relabel']
WARMERS = ['values', 'len', 'iter', 'depth', 'shape', 'vad', 'contains', 'lti', 'size', 'reversed', 'positions', 'dtypes']


class _Pools(dict):
    def __missing__(self, k):
        # inferred datetime level of a derived hierarchy: labels are datetime64 objects of the level's own unit
        unit = k.split(':')[1]
        base = np.datetime64('2020-01-01', unit)
        return [{'d': str(base + i)} for i in range(1, 5)]


LEVEL_POOLS = _Pools(LEVEL_POOLS)


def coerce_level(x, kind):
    if kind == 'date':
        return np.datetime64(x, 'D')
    return x


def norm_t(t):
    return tuple(norm(v) for v in t)


def gen_tree(ch, kinds, max_leaves=10):
    '''Random ragged tree in tree order: list of tuples of encoded labels.'''
    depth = len(kinds)

    def rec(d, budget):
        pool = LEVEL_POOLS[kinds[d]]
        k = ch.randint(1, min(3, len(pool)))
        labs = ch.sample(pool, k)
        if ch.chance(0.5) and not any(isinstance(x, dict) for x in labs):
            labs = sorted(labs)
        out = []
        for lab in labs:
            if d == depth - 1:
                out.append((lab,))
            else:
                for sub in rec(d + 1, budget):
                    out.append((lab,) + sub)
            if len(out) >= budget:
                break
        return out[:budget]
    return rec(0, max_leaves)


class HierOps:

    # ------------------------------------------------------------------ generation
    def gen_new_ih(self, ch):
        depth = ch.weighted([(2, 5), (3, 3), (4, 1)])
        kinds = []
        for d in range(depth):
            kinds.append(ch.weighted([('str', 4), ('int', 4), ('date', 1), ('str2', 2)]))
        route = ch.weighted([('from_labels', 6), ('from_product', 2), ('from_tree', 2), ('from_index_items', 1),
                             ('set_index_hierarchy', 2), ('level_add', 1), ('from_names', 1), ('frame_columns', 1), ('concat_items', 2)])
        if route != 'from_labels':
            kinds = [k if k != 'date' else 'int' for k in kinds]
        if route == 'from_index_items':
            kinds = kinds[:2]
        go = ch.chance(0.85)
        op = {'op': 'new_ih', 'out': self.next_h, 'go': go, 'route': route, 'kinds': kinds,
              'name': ch.choice([None, 'nm', {'t': ['p', 'q', 'r', 's'][:len(kinds)]}])}
        if route == 'from_names':
            op['labels'] = []
            return op
        if route == 'concat_items':
            # Series.from_concat_items of default-indexed Series: the inner levels are auto-integer (map-less) indices
            outers = ch.sample(LEVEL_POOLS['str'], ch.randint(1, 3))
            op['kinds'] = ['str', 'int']
            op['labels'] = [[o, i] for o in outers for i in range(ch.randint(1, 4))]
            return op
        if route == 'from_product':
            levels = []
            for k in kinds:
                pool = LEVEL_POOLS[k]
                levels.append(ch.sample(pool, ch.randint(1, 2 if len(kinds) > 2 else 3)))
            labs = [()]
            for lv in levels:
                labs = [t + (x,) for t in labs for x in lv]
            op['labels'] = [list(t) for t in labs]
            op['levels'] = levels
            return op
        labs = gen_tree(ch, kinds)
        if route == 'level_add':
            labs = gen_tree(ch, kinds[1:]) if len(kinds) > 2 else [(x,) for x in ch.sample(LEVEL_POOLS[kinds[1]], ch.randint(1, 3))]
            outer = ch.choice(LEVEL_POOLS[kinds[0]])
            labs = [(outer,) + t for t in labs]
        if self.want_fault(ch) and len(labs) >= 2 and route in ('from_labels', 'set_index_hierarchy'):
            if ch.chance(0.5):
                labs.insert(ch.randint(0, len(labs)), ch.choice(labs))  # exact duplicate
            else:
                i = ch.randint(0, len(labs) - 1)
                labs.append(labs.pop(i))  # may break tree order
        op['labels'] = [list(t) for t in labs]
        return op

    def _level_kinds(self, e):
        kinds = e.extra.get('kinds')
        m = e.model
        if kinds is None:
            kinds = []
            for d in range(m.depth):
                vals = [t[d] for t in m.raw]
                if vals and all(isinstance(v, np.datetime64) for v in vals):
                    kinds.append('dt:' + np.datetime_data(vals[0].dtype)[0])
                elif vals and all(isinstance(v, (int, np.integer)) for v in vals):
                    kinds.append('int')
                elif vals and all(isinstance(v, str) and v in LEVEL_POOLS['str2'] for v in vals):
                    kinds.append('str2')
                else:
                    kinds.append('str')
        return kinds

    def _gen_tuple(self, ch, e, fault):
        m = e.model
        kinds = self._level_kinds(e)
        held = set(norm_t(t) for t in m.raw)
        if fault:
            kind = ch.weighted([('dup', 3 if m.raw else 0), ('reentry', 4 if m.raw else 0), ('depth', 1.5), ('unhashable', 1)])
            if kind == 'dup':
                return [enc(x) for x in ch.choice(m.raw)]
            if kind == 'depth':
                t = [ch.choice(LEVEL_POOLS[k]) for k in kinds]
                return t[:-1] if ch.chance(0.5) else t + [1]
            if kind == 'unhashable':
                t = [ch.choice(LEVEL_POOLS[k]) for k in kinds]
                t[ch.randint(0, len(t) - 1)] = {'u': [1]}
                return t
            # re-entry into an earlier subtree: take a prefix of a non-last tuple, vary the tail
            base = ch.choice(m.raw)
            d = ch.randint(1, m.depth - 1) if m.depth > 1 else 1
            t = [enc(x) for x in base[:d]] + [ch.choice(LEVEL_POOLS[k]) for k in kinds[d:]]
            return t
        # valid continuation: share a prefix of length d with the last tuple, then fresh labels
        for _ in range(6):
            if m.raw:
                last = m.raw[-1]
                d = ch.weighted([(dd, 1 + dd) for dd in range(m.depth)])
                t = [enc(x) for x in last[:d]] + [ch.choice(LEVEL_POOLS[k]) for k in kinds[d:]]
            else:
                t = [ch.choice(LEVEL_POOLS[k]) for k in kinds]
            try:
                tt = tuple(coerce_level(dec(x), k) for x, k in zip(t, kinds))
            except Exception:
                e.extra['kinds'] = None  # declared kinds no longer describe the labels (mixed by an accepted extend)
                kinds = self._level_kinds(e)
                continue
            if norm_t(tt) not in held and is_tree_order([norm_t(x) for x in m.raw] + [norm_t(tt)]):
                return t
        return None

    def gen_ih_grow(self, ch):
        hs = self.handles(lambda e: e.kind == 'ih' and e.go)
        if not hs:
            return self.gen_new_ih(ch)
        h = ch.choice(hs)
        e = self.ents[h]
        fault = self.want_fault(ch)
        if ch.chance(0.6):
            t = self._gen_tuple(ch, e, fault)
            if t is None:
                t = self._gen_tuple(ch, e, True)
            if t is None:
                return None
            return {'op': 'ih_append', 'h': h, 'label': t}
        kinds = self._level_kinds(e)
        op = {'op': 'ih_extend', 'h': h, 'go_src': ch.chance(0.3), 'kinds': kinds}
        others = [x for x in self.handles(lambda e2: e2.kind == 'ih') if x != h]
        if others and ch.chance(0.3):
            op['src_h'] = ch.choice(others)
            return op
        labs = gen_tree(ch, kinds, max_leaves=5)
        outer_held = set(norm(t[0]) for t in e.model.raw)
        if not fault:
            labs = [t for t in labs if norm(coerce_level(dec(t[0]), kinds[0])) not in outer_held]
        elif ch.chance(0.3):
            labs = [t[:-1] for t in labs] if len(kinds) > 2 else labs  # depth mismatch
        op['labels'] = [list(t) for t in labs]
        return op

    def gen_ih_derive(self, ch):
        hs = self.handles(lambda e: e.kind == 'ih')
        if not hs:
            return None
        h = ch.choice(hs)
        m = self.ents[h].model
        n = len(m.raw)
        how = ch.choice(IH_DERIVES)
        op = {'op': 'ih_derive', 'h': h, 'how': how, 'out': self.next_h}
        if how in ('roll', 'head', 'tail'):
            op['k'] = ch.randint(0, 3)
        elif how == 'sort':
            op['asc'] = ch.chance(0.5)
        elif how in ('iloc_sel', 'loc_sel'):
            op['pos'] = sorted(ch.sample(range(n), ch.randint(0, n))) if n else []
        elif how == 'drop_iloc':
            op['pos'] = ch.randint(0, n - 1) if n else 0
        elif how == 'level_drop':
            op['k'] = ch.choice([1, -1])
        elif how in ('union', 'intersection'):
            others = [x for x in hs if x != h]
            if not others:
                return None
            op['other_h'] = ch.choice(others)
        elif how == 'astype':
            op['to'] = ch.choice(['object', 'str'])
        elif how == 'rehierarch':
            op['order'] = ch.shuffled(range(m.depth))
        return op

    def gen_ih_warm(self, ch):
        hs = self.handles(lambda e: e.kind == 'ih')
        if not hs:
            return None
        return {'op': 'ih_warm', 'h': ch.choice(hs), 'views': ch.sample(WARMERS, ch.randint(1, 3))}

    def gen_ih_query(self, ch):
        hs = self.handles(lambda e: e.kind == 'ih' and len(e.model.raw) > 0)
        if not hs:
            return None
        h = ch.choice(hs)
        m = self.ents[h].model
        n = len(m.raw)
        via = ch.weighted([('loc_to_iloc', 5), ('loc', 2), ('series', 2), ('frame', 2), ('iloc', 1)])
        op = {'op': 'ih_query', 'h': h, 'via': via}
        whole = ch.weighted([('hloc', 7), ('tuple', 2), ('mask', 1), ('tuples', 1)])
        if via == 'iloc':
            op['pos'] = ch.sample(range(n), ch.randint(1, n))
            return op
        if whole == 'tuple':
            op['key'] = {'whole': 'tuple', 'v': [enc(x) for x in ch.choice(m.raw)]}
            return op
        if whole == 'tuples':
            op['key'] = {'whole': 'tuples', 'v': [[enc(x) for x in t] for t in ch.sample(m.raw, ch.randint(1, min(3, n)))]}
            return op
        if whole == 'mask':
            mask = [ch.chance(0.5) for _ in range(n)]
            if not any(mask):
                mask[ch.randint(0, n - 1)] = True
            op['key'] = {'whole': 'mask', 'v': mask}
            return op
        # per-level selectors; keep the current candidate set non-empty
        rows = list(range(n))
        sels = []
        use_depths = ch.randint(1, m.depth)
        for d in range(use_depths):
            labs = []
            for i in rows:
                if not any(norm(m.raw[i][d]) == norm(x) for x in labs):
                    labs.append(m.raw[i][d])
            kind = ch.weighted([('all', 3), ('label', 4), ('list', 3), ('slice', 2),
                                ('mask', 1 if (d == m.depth - 1 and all(s['k'] == 'all' for s in sels)) else 0)])
            if kind == 'slice':
                # endpoints must exist under every selected parent; the order must be the same in each
                parents = {}
                for i in rows:
                    parents.setdefault(norm_t(m.raw[i][:d]), [])
                    if norm(m.raw[i][d]) not in parents[norm_t(m.raw[i][:d])]:
                        parents[norm_t(m.raw[i][:d])].append(norm(m.raw[i][d]))
                common = [x for x in labs if all(norm(x) in p for p in parents.values())]
                if len(common) >= 1:
                    a = ch.choice(common)
                    b = ch.choice(common)
                    open_end = ch.weighted([('none', 5), ('a', 2), ('b', 2), ('both', 1 if d == m.depth - 1 else 0)])
                    ok = all(p.index(norm(a)) <= p.index(norm(b)) for p in parents.values()) or open_end != 'none'
                    if ok:
                        sel = {'k': 'slice', 'a': enc(a) if open_end not in ('a', 'both') else None, 'b': enc(b) if open_end not in ('b', 'both') else None}
                        if d == m.depth - 1 and (open_end == 'both' or ch.chance(0.3)):
                            sel['step'] = 2  # every second label of the range, within each selected parent
                        sels.append(sel)
                        na = norm(a) if sel['a'] is not None else None
                        nb = norm(b) if sel['b'] is not None else None
                        rows = [i for i in rows if self._slice_match(parents[norm_t(m.raw[i][:d])], na, nb, norm(m.raw[i][d]))]
                        continue
                kind = 'all'
            if kind == 'all':
                sels.append({'k': 'all'})
            elif kind == 'label':
                x = ch.choice(labs)
                sels.append({'k': 'label', 'v': enc(x)})
                rows = [i for i in rows if norm(m.raw[i][d]) == norm(x)]
            elif kind == 'list':
                xs = ch.sample(labs, ch.randint(1, len(labs)))
                sels.append({'k': 'list', 'v': [enc(x) for x in xs]})
                nx = [norm(x) for x in xs]
                rows = [i for i in rows if norm(m.raw[i][d]) in nx]
            elif kind == 'mask':
                mask = [ch.chance(0.5) for _ in range(n)]
                if not any(mask):
                    mask[ch.randint(0, n - 1)] = True
                sels.append({'k': 'mask', 'v': mask})
                rows = [i for i in rows if mask[i]]
        if all(s['k'] == 'all' for s in sels):
            sels[0] = {'k': 'label', 'v': enc(m.raw[ch.randint(0, n - 1)][0])}
        op['key'] = {'sels': sels}
        return op

    @staticmethod
    def _slice_match(order, a, b, x):
        lo = order.index(a) if a is not None else 0
        hi = order.index(b) if b is not None else len(order) - 1
        return lo <= order.index(x) <= hi

    # ------------------------------------------------------------------ construction
    def _build_ih(self, go, route, kinds, tuples, name, op):
        sf = self.sf
        cls = sf.IndexHierarchyGO if go else sf.IndexHierarchy
        ctors = [sf.IndexDate if k == 'date' else sf.Index for k in kinds]
        has_date = any(k == 'date' for k in kinds)
        if route == 'from_names':
            nm = name if isinstance(name, tuple) and len(name) == len(kinds) else tuple('n%d' % i for i in range(len(kinds)))
            return cls.from_names(nm)
        if route == 'from_product':
            return cls.from_product(*[list(lv) for lv in op['levels']], name=name)
        if route == 'from_tree':
            def nest(ts):
                if len(ts[0]) == 1:
                    return tuple(t[0] for t in ts)
                out = {}
                for t in ts:
                    out.setdefault(t[0], []).append(t[1:])
                return {k: nest(v) for k, v in out.items()}
            return cls.from_tree(nest(tuples), name=name)
        if route == 'from_index_items':
            groups = []
            for t in tuples:
                if not groups or groups[-1][0] != t[0]:
                    groups.append((t[0], []))
                groups[-1][1].append(t[1])
            return cls.from_index_items([(k, sf.Index(v)) for k, v in groups]).rename(name)
        if route == 'concat_items':
            groups = []
            for t in tuples:
                if not groups or groups[-1][0] != t[0]:
                    groups.append((t[0], 0))
                groups[-1] = (t[0], groups[-1][1] + 1)
            s_ = sf.Series.from_concat_items([(k, sf.Series(np.arange(n_) * 10)) for k, n_ in groups])
            ih = s_.index.rename(name)
            return cls(ih) if go else ih
        if route in ('set_index_hierarchy', 'frame_columns'):
            rows = [list(t) + [i] for i, t in enumerate(tuples)]
            f = sf.Frame.from_records(rows)
            ih = f.set_index_hierarchy(list(range(len(kinds))), drop=True).index
            ih = ih.rename(name)
            if route == 'frame_columns':
                return sf.FrameGO(np.arange(len(tuples)).reshape(1, len(tuples)), columns=ih).columns if go else \
                    sf.Frame(np.arange(len(tuples)).reshape(1, len(tuples)), columns=ih).columns
            return cls(ih) if go else ih
        if route == 'level_add':
            inner = [t[1:] for t in tuples]
            if len(kinds) == 2:
                base = (sf.IndexGO if go else sf.Index)([t[0] for t in inner])
            else:
                base = cls.from_labels(inner)
            return base.level_add(tuples[0][0]).rename(name)
        if has_date:
            return cls.from_labels(tuples, name=name, index_constructors=ctors)
        return cls.from_labels(tuples, name=name)

    def do_new_ih(self, op, dec_):
        sf = self.sf
        kinds = op['kinds']
        route = op['route']
        go = op['go']
        name = dec(op.get('name'))
        try:
            tuples = [tuple(coerce_level(dec(x), k) for x, k in zip(t, kinds)) for t in op['labels']]
        except Exception:
            return 'skip'
        if any(len(t) != len(kinds) for t in tuples):
            return 'skip'
        if not tuples and route != 'from_names':
            return 'skip'
        nt = [norm_t(t) for t in tuples]
        tree = is_tree_order(nt)
        cname = 'IndexHierarchyGO' if go else 'IndexHierarchy'
        site = f'{cname}.{route}'
        if route == 'from_tree' and not tree:
            return 'skip'  # a dict cannot express it
        if route in ('from_product', 'level_add', 'from_index_items', 'concat_items') and not tree:
            return 'skip'
        st, r = call(self._build_ih, go, route, kinds, tuples, name, op)
        if not tree:
            cls_ = 'duplicate-tuples' if len(set(nt)) != len(nt) else 'non-tree-order'
            self.fault('construct-' + cls_)
            if st == 'ok':
                if self.want('C02.reject'):
                    raise Violation('C02.reject', site, cls_, f'constructed from {tuples!r:.300}')
                return 'accepted-bad'
            if self.want('C02.reject') and not isinstance(r, sf.ErrorInitIndex):
                raise Violation('C02.reject.class', site, cls_, f'raised {type(r).__name__}: {r}')
            return 'rejected'
        if st == 'raise':
            self.stats['construct_raise:' + route] += 1
            if self.want('C05.build') and route in ('from_labels', 'from_product', 'from_tree', 'from_index_items'):
                raise Violation('C05.build', site, 'valid-tree', f'{type(r).__name__}: {r}')
            return 'raise:' + type(r).__name__
        if not isinstance(r, sf.IndexHierarchy):
            return 'not-ih'
        if route == 'from_names':
            name = r.name
        m = IxM(type(r).__name__, tuples, r.name if route in ('level_add', 'from_names', 'set_index_hierarchy', 'frame_columns', 'concat_items') else name, depth=len(kinds))
        e = self.add('ih', r, m, is_go(type(r).__name__), origin=site, h=op['out'])
        e.extra['kinds'] = list(kinds)
        self.check_ent(e, op, full=True)
        st, s = call(snap_index, r)
        if st == 'ok':
            learn_index(m, s)
        return 'ok'

    # ------------------------------------------------------------------ growth
    def do_ih_append(self, op, dec_):
        e = self.get(op['h'], ('ih',))
        if e is None or not e.go:
            return 'skip'
        m = e.model
        kinds = self._level_kinds(e)
        raw = [dec(x) for x in op['label']]
        site = 'IndexHierarchyGO.append'
        exp, cls = 'accept', ''
        t = None
        if len(raw) != m.depth:
            exp, cls = 'may', 'wrong-depth'
        elif any(unhashable(x) for x in raw):
            exp, cls = 'may', 'unhashable'
        else:
            try:
                t = tuple(coerce_level(x, k) for x, k in zip(raw, kinds))
            except Exception:
                exp, cls = 'may', 'bad-date'
        if t is not None:
            nts = [norm_t(x) for x in m.raw]
            if norm_t(t) in nts:
                exp, cls = 'must', 'duplicate'
            elif not is_tree_order(nts + [norm_t(t)]):
                exp, cls = 'may-accept', 'non-tree-reentry'
            elif not m.raw:
                cls = 'first-on-empty'
            else:
                d = 0
                while d < m.depth and norm(m.raw[-1][d]) == norm(t[d]):
                    d += 1
                cls = f'continue-at-depth-{d}'
        fn = lambda t_: t_.append(tuple(raw))
        st, r = self._grow_call(e, fn, exp)
        if st == 'raise':
            return self._growth_failed(e, op, site, cls, [tuple(raw)], r, 'accept' if exp == 'accept' else exp, fn)
        if exp == 'must':
            if self.want('C09.reject') or self.want('C02.unique') or self.want('C05.grow'):
                o = {'C09': 'C09.reject', 'C02': 'C02.unique', 'C05': 'C05.grow'}[self.profile]
                raise Violation(o, site, cls, f'duplicate {t!r} accepted')
            del self.ents[e.h]
            return 'accepted-dup'
        if exp == 'may':
            self._readable_after_accept(e, site, cls)
            del self.ents[e.h]
            return 'accepted-unmodelled'
        m.raw.append(t)
        m.wild()
        if cls == 'non-tree-reentry':
            self.fault('growth-non-tree-reentry-accepted')
        self._growth_ok(e, site, cls)
        return 'ok'

    def do_ih_extend(self, op, dec_):
        sf = self.sf
        e = self.get(op['h'], ('ih',))
        if e is None or not e.go:
            return 'skip'
        m = e.model
        kinds = self._level_kinds(e)
        site = 'IndexHierarchyGO.extend'
        if 'src_h' in op:
            se = self.get(op['src_h'], ('ih',))
            if se is None:
                return 'skip'
            if self._level_kinds(se) != kinds:
                return 'skip'  # extend documents compatible depth and index types as its precondition
            other = se.obj
            tuples = list(se.model.raw)
            odepth = se.model.depth
        else:
            okinds = op.get('kinds', kinds)
            if list(okinds) != list(kinds):
                return 'skip'
            try:
                tuples = [tuple(coerce_level(dec(x), k) for x, k in zip(t, okinds)) for t in op['labels']]
            except Exception:
                return 'skip'
            if not tuples:
                return 'skip'
            odepth = len(tuples[0])
            if not is_tree_order([norm_t(t) for t in tuples]):
                return 'skip'
            cls_o = sf.IndexHierarchyGO if op.get('go_src') else sf.IndexHierarchy
            ctors = [sf.IndexDate if k == 'date' else sf.Index for k in okinds[:odepth]]
            if any(k == 'date' for k in okinds[:odepth]):
                st, other = call(lambda: cls_o.from_labels(tuples, index_constructors=ctors))
            else:
                st, other = call(lambda: cls_o.from_labels(tuples))
            if st == 'raise':
                return 'skip-src:' + type(other).__name__
        nts = [norm_t(x) for x in m.raw]
        nnew = [norm_t(x) for x in tuples]
        if odepth != m.depth:
            exp, cls = 'may', 'depth-mismatch'
        elif not tuples:
            exp, cls = 'may', 'empty'
        elif is_tree_order(nts + nnew):
            exp, cls = 'accept', 'disjoint'
        else:
            outer_held = set(t[0] for t in nts)
            outers = []
            for t in nnew:
                if t[0] not in outers:
                    outers.append(t[0])
            first_bad = next((i for i, x in enumerate(outers) if x in outer_held), None)
            if first_bad is None:
                exp, cls = 'may', 'overlap-other'
            else:
                exp, cls = 'may-accept', 'outer-overlap@' + ('first' if first_bad == 0 else 'later')
        fn = lambda t_: t_.extend(other)
        st, r = self._grow_call(e, fn, exp)
        if st == 'raise':
            return self._growth_failed(e, op, site, cls, tuples, r, 'accept' if exp == 'accept' else exp, fn)
        if exp == 'may':
            self._readable_after_accept(e, site, cls)
            del self.ents[e.h]
            return 'accepted-unmodelled'
        m.raw.extend(tuples)
        m.wild()
        self._growth_ok(e, site, cls)
        if 'src_h' in op:
            self.probe('extend-from-pool-member')
        return 'ok'

    # ------------------------------------------------------------------ derivation
    def do_ih_derive(self, op, dec_):
        sf = self.sf
        e = self.get(op['h'], ('ih',))
        if e is None:
            return 'skip'
        how = op['how']
        obj = e.obj
        m = e.model
        n = len(m.raw)
        o = None
        if 'other_h' in op:
            oe = self.get(op['other_h'], ('ih',))
            if oe is None:
                return 'skip'
            o = oe.obj

        def mk():
            if how == 'copy':
                return obj.copy()
            if how == 'copy_copy':
                return copy.copy(obj)
            if how == 'deepcopy':
                return copy.deepcopy(obj)
            if how == 'pickle':
                return pickle.loads(pickle.dumps(obj))
            if how == 'static':
                return sf.IndexHierarchy(obj)
            if how == 'go':
                return sf.IndexHierarchyGO(obj)
            if how == 'rename':
                return obj.rename('r2')
            if how == 'level_add':
                return obj.level_add('z')
            if how == 'level_drop':
                return obj.level_drop(op.get('k', 1))
            if how == 'flat':
                return obj.flat()
            if how == 'iloc_sel':
                return obj.iloc[[p for p in op.get('pos', []) if p < n]]
            if how == 'loc_sel':
                return obj.loc[[m.raw[p] for p in op.get('pos', []) if p < n]]
            if how == 'roll':
                return obj.roll(op.get('k', 1))
            if how == 'sort':
                return obj.sort(ascending=op.get('asc', True))
            if how == 'drop_iloc':
                return obj.drop.iloc[op.get('pos', 0)]
            if how == 'head':
                return obj.head(op.get('k', 1))
            if how == 'tail':
                return obj.tail(op.get('k', 1))
            if how == 'astype':
                return obj.astype({'object': object, 'str': str}[op.get('to', 'object')])
            if how == 'series_index':
                return sf.Series(np.arange(n), index=obj).index
            if how == 'frame_index':
                return sf.FrameGO(np.arange(n).reshape(n, 1), index=obj).index
            if how == 'union':
                return obj.union(o)
            if how == 'intersection':
                return obj.intersection(o)
            if how == 'rehierarch':
                return obj.rehierarch(op.get('order', list(range(m.depth))))
            if how == 'relabel':
                return obj.relabel(lambda t: t[::-1] if False else tuple(t))
            raise KeyError(how)
        st, r = call(mk)
        if how == 'rehierarch' and self.want('C05.views') and n and not e.extra.get('failed'):
            # the same tuples with their components permuted (row order may change), whatever the level types
            order = op.get('order', list(range(m.depth)))
            if sorted(order) == list(range(m.depth)):
                want = sorted(repr(tuple(norm_t(t)[d] for d in order)) for t in m.raw)
                if st == 'raise':
                    raise Violation('C05.views', f'{m.cls}.rehierarch', 'raised', f'rehierarch({order}) raised {type(r).__name__}: {r}')
                st_g, got = call(lambda: sorted(repr(norm_t(t)) for t in r))
                if st_g == 'raise' or got != want:
                    raise Violation('C05.views', f'{m.cls}.rehierarch', 'labels', f'rehierarch({order}) holds {got!r:.300}, expected the permuted tuples {want!r:.300}')
        if st == 'raise':
            self.stats['derive_raise:' + how] += 1
            return 'raise:' + type(r).__name__
        if not isinstance(r, IndexBase):
            return 'not-index'
        if how in ('union', 'intersection') and unorderable_mix(r):
            self.stats['derive-not-followed:hash-seed-dependent-order'] += 1
            return 'unordered-result'  # set order of unorderable labels depends on the interpreter's hash seed
        self.stats['derive:' + how] += 1
        return self.adopt_index(r, op['out'], f'{m.cls}.{how}', op)

    def _length_probes(self, obj, m, fail, o):
        '''A held tuple with surplus elements (whatever they are), or cut short, is not a member.'''
        t = m.raw[0]
        for extra in (None, 0, 2, '', False):
            for cand in (tuple(t) + (extra,), tuple(t) + (extra, extra)):
                st, c = call(lambda: cand in obj)
                if st == 'ok' and c is not False:
                    fail(o, f'tuple {cand!r} is longer than the depth but reported as a member')
        if m.depth > 1:
            short = tuple(t)[:-1]
            st, c = call(lambda: short in obj)
            if st == 'ok' and c is not False:
                fail(o, f'tuple {short!r} is shorter than the depth but reported as a member')

    # ------------------------------------------------------------------ reads that only warm caches
    def do_ih_warm(self, op, dec_):
        e = self.get(op['h'], ('ih',))
        if e is None:
            return 'skip'
        obj = e.obj
        m = e.model
        out = []
        for v in op['views']:
            if v == 'values':
                st, _ = call(lambda: obj.values)
            elif v == 'len':
                st, _ = call(len, obj)
            elif v == 'iter':
                st, _ = call(lambda: list(obj))
            elif v == 'depth':
                st, _ = call(lambda: obj.depth)
            elif v == 'shape':
                st, _ = call(lambda: obj.shape)
            elif v == 'size':
                st, _ = call(lambda: obj.size)
            elif v == 'vad':
                st, _ = call(lambda: obj.values_at_depth(0))
            elif v == 'contains':
                st, _ = call(lambda: (m.raw[0] if m.raw else ('q', 0)) in obj)
            elif v == 'lti':
                st, _ = call(lambda: obj.loc_to_iloc(m.raw[-1]) if m.raw else None)
            elif v == 'reversed':
                st, _ = call(lambda: list(reversed(obj)))
            elif v == 'positions':
                st, _ = call(lambda: obj.positions)
            elif v == 'dtypes':
                st, _ = call(lambda: obj.dtypes)
            else:
                st = 'ok'
            out.append(st)
        e.extra['warm'] = 1
        e.extra['mh'] = None
        return out

    # ------------------------------------------------------------------ queries (C05.select)
    def _expected_positions(self, m, key):
        '''Positions selected by a per-level key, by the statement's rule: matches of every level selector,
        index order, except that a list selector orders the matches of its level by the list.'''
        n = len(m.raw)
        nts = [norm_t(t) for t in m.raw]
        if 'whole' in key:
            if key['whole'] == 'tuple':
                t = norm_t(tuple(dec(x) for x in key['v']))
                return [nts.index(t)] if t in nts else None, 'element'
            if key['whole'] == 'tuples':
                out = []
                for tt in key['v']:
                    t = norm_t(tuple(dec(x) for x in tt))
                    if t not in nts:
                        return None, 'list'
                    out.append(nts.index(t))
                return out, 'list'
            mask = key['v']
            if len(mask) != n:
                return None, 'list'
            return [i for i in range(n) if mask[i]], 'list'
        sels = key['sels']

        def rec(rows, d):
            if d >= len(sels):
                return rows
            s = sels[d]
            # distinct labels at this depth among rows, in index order (one parent at a time)
            groups = []
            for i in rows:
                x = nts[i][d]
                if not groups or groups[-1][0] != x:
                    groups.append((x, []))
                groups[-1][1].append(i)
            if s['k'] == 'all':
                pick = groups
            elif s['k'] == 'label':
                x = norm(dec(s['v']))
                pick = [g for g in groups if g[0] == x]
            elif s['k'] == 'list':
                pick = []
                for x in s['v']:
                    nx = norm(dec(x))
                    pick += [g for g in groups if g[0] == nx]
            elif s['k'] == 'slice':
                labs = [g[0] for g in groups]
                a = norm(dec(s['a'])) if s['a'] is not None else None
                b = norm(dec(s['b'])) if s['b'] is not None else None
                if (a is not None and a not in labs) or (b is not None and b not in labs):
                    return None
                pick = groups[(labs.index(a) if a is not None else 0): (labs.index(b) + 1 if b is not None else len(labs))]
                if s.get('step'):
                    pick = pick[::s['step']]
            elif s['k'] == 'mask':
                return [i for i in rows if s['v'][i]] if len(s['v']) == n else None
            out = []
            for _, sub in pick:
                r = rec(sub, d + 1)
                if r is None:
                    return None
                out += r
            return out
        # groups must be formed per parent: recursion already restricts rows to one parent below depth 0
        res = rec(list(range(n)), 0)
        element = len(sels) == m.depth and all(s['k'] == 'label' for s in sels)
        return res, 'element' if element else 'list'

    def _build_key(self, m, key):
        sf = self.sf
        if 'whole' in key:
            if key['whole'] == 'tuple':
                return tuple(dec(x) for x in key['v'])
            if key['whole'] == 'tuples':
                return [tuple(dec(x) for x in t) for t in key['v']]
            return np.array(key['v'], dtype=bool)
        parts = []
        for s in key['sels']:
            if s['k'] == 'all':
                parts.append(slice(None))
            elif s['k'] == 'label':
                parts.append(dec(s['v']))
            elif s['k'] == 'list':
                parts.append([dec(x) for x in s['v']])
            elif s['k'] == 'slice':
                parts.append(slice(dec(s['a']) if s['a'] is not None else None, dec(s['b']) if s['b'] is not None else None, s.get('step')))
            elif s['k'] == 'mask':
                parts.append(np.array(s['v'], dtype=bool))
        return sf.HLoc[tuple(parts)] if len(parts) > 1 else sf.HLoc[parts[0]]

    @staticmethod
    def _positions_of(r, n):
        if isinstance(r, (int, np.integer)):
            return [int(r)], 'element'
        if isinstance(r, slice):
            return list(range(n))[r], 'list'
        a = np.asarray(r)
        if a.dtype == bool:
            return [int(i) for i in np.nonzero(a)[0]], 'list'
        return [int(i) for i in a.tolist()], 'list'

    def do_ih_query(self, op, dec_):
        sf = self.sf
        e = self.get(op['h'], ('ih',))
        if e is None or not self.want('C05.select'):
            return 'skip'
        m = e.model
        obj = e.obj
        n = len(m.raw)
        if n == 0:
            return 'skip'
        via = op['via']
        site = f'IndexHierarchy.{via}'
        _, gcls = self.blame(e, op)
        nts = [norm_t(t) for t in m.raw]
        if via == 'iloc':
            pos = sorted(p for p in op['pos'] if p < n)  # a subsequence in index order is still tree-form
            if not pos:
                return 'skip'
            st, r = call(lambda: obj.iloc[pos])
            if st == 'raise':
                raise Violation('C05.select', site, 'iloc-list', f'iloc[{pos}] raised {type(r).__name__}: {r}')
            got = [norm_t(t) for t in r.values.tolist()]
            if got != [nts[p] for p in pos]:
                raise Violation('C05.select', site, 'iloc-list', f'iloc[{pos}] -> {got!r:.300}')
            self.stats['query:iloc'] += 1
            return 'ok'
        key = op['key']
        if 'sels' in key and (len(key['sels']) > m.depth or any(s['k'] == 'mask' and len(s['v']) != n for s in key['sels'])):
            return 'skip'
        if key.get('whole') == 'tuples' and via != 'loc_to_iloc':
            key = dict(key)
            nn = [norm_t(t) for t in m.raw]
            try:
                key['v'] = sorted(key['v'], key=lambda t: nn.index(norm_t(tuple(dec(x) for x in t))))
            except ValueError:
                return 'skip'
        exp, form = self._expected_positions(m, key)
        if not exp:
            return 'skip'  # matching nothing / unresolvable after shrinking: outside the claim
        kcls = key.get('whole') or '+'.join(s['k'] for s in key['sels'])
        k = self._build_key(m, key)
        warm = 'warm' if e.extra.get('warm') else 'cold'
        self.stats['query:' + via] += 1
        self.stats['query-cache:' + warm] += 1

        def bad(detail):
            raise Violation('C05.select', site, kcls, f'[{gcls}] {detail}; tuples={m.raw!r:.400}')
        if via == 'loc_to_iloc':
            st, r = call(obj.loc_to_iloc, k)
            if st == 'raise':
                bad(f'raised {type(r).__name__}: {r}')
            got, gform = self._positions_of(r, n)
            if got != exp:
                bad(f'positions {got} != expected {exp}')
            if form == 'element' and gform != 'element':
                bad(f'full tuple did not select a single position: {r!r}')
        elif via == 'loc':
            st, r = call(lambda: obj.loc[k])
            if st == 'raise':
                bad(f'raised {type(r).__name__}: {r}')
            if isinstance(r, tuple):
                got = [norm_t(r)]
            else:
                got = [norm_t(t) for t in r.values.tolist()]
            if got != [nts[p] for p in exp]:
                bad(f'loc -> {got!r:.300}, expected rows {exp}')
        elif via == 'series':
            st, s = call(lambda: sf.Series(np.arange(n), index=sf.IndexHierarchy(obj) if not obj.STATIC else obj))
            if st == 'raise':
                bad(f'Series construction raised {type(s).__name__}: {s}')
            st, r = call(lambda: s[k])
            if st == 'raise':
                bad(f'raised {type(r).__name__}: {r}')
            got = [int(r)] if not isinstance(r, sf.Series) else [int(x) for x in r.values.tolist()]
            if got != exp:
                bad(f'series rows {got} != expected {exp}')
            if isinstance(r, sf.Series):
                lab = [norm_t(t) for t in r.index.values.tolist()] if r.index.depth > 1 else None
                if lab is not None and lab != [nts[p] for p in exp]:
                    bad(f'series labels {lab!r:.300}')
        elif via == 'frame':
            st, f = call(lambda: sf.Frame(np.arange(n * 2).reshape(n, 2), index=sf.IndexHierarchy(obj) if not obj.STATIC else obj))
            if st == 'raise':
                bad(f'Frame construction raised {type(f).__name__}: {f}')
            kf = sf.HLoc[k] if isinstance(k, tuple) else k  # a bare tuple in Frame.loc means (rows, columns)
            st, r = call(lambda: f.loc[kf])
            if st == 'raise':
                bad(f'raised {type(r).__name__}: {r}')
            if isinstance(r, sf.Series):
                got = [int(r.values[0]) // 2]
            else:
                got = [int(x) // 2 for x in r.values[:, 0].tolist()]
            if got != exp:
                bad(f'frame rows {got} != expected {exp}')
        return 'ok'

    # ------------------------------------------------------------------ oracles
    def check_ih(self, e, op, full=False):
        obj = e.obj
        m = e.model
        site, cls = self.blame(e, op)
        pend = e.extra.get('pending_fail')
        exp = [norm_t(t) for t in m.raw]
        n = len(exp)
        P = self.profile

        def fail(oracle, detail, cls_=cls):
            raise Violation(oracle, site, cls_, detail)

        def read_values():
            if len(obj) == 0:
                return []
            return [norm_t(t) for t in obj.values.tolist()]
        if P in ('C02', 'C05') and n and not pend and len(exp) % 2 == 0:
            # iter_label as the FIRST read (before anything refreshes the caches): whole tuples and one depth
            st_a, a = call(lambda: [norm_t(t) for t in obj.iter_label()])
            st_b, b = call(lambda: norm_list(list(obj.iter_label(0))))
            if st_a == 'raise' or a != exp:
                fail('C02.bijection' if P == 'C02' else 'C05.grow' if (e.go and e.extra.get('last_growth')) else 'C05.views',
                     f'iter_label() as first read {a!r:.300} != {exp!r:.300}')
            if st_b == 'raise' or b != [t[0] for t in exp]:
                fail('C02.bijection' if P == 'C02' else 'C05.grow' if (e.go and e.extra.get('last_growth')) else 'C05.views',
                     f'iter_label(0) as first read {b!r:.300} != {[t[0] for t in exp]!r:.300}')
        st_i, it = call(lambda: [norm_t(t) for t in obj])
        st_v, vals = call(read_values)
        st_l, ln = call(len, obj)
        if P == 'C09':
            if 'raise' in (st_i, st_v, st_l):
                bad = [x for s_, x in ((st_i, it), (st_v, vals), (st_l, ln)) if s_ == 'raise'][0]
                fail('C09.atomic.torn' if pend else 'C09.lockstep', f'read raised {type(bad).__name__}: {bad}')
            if it != exp or vals != exp or ln != n:
                detail = f'iter={it!r:.300} values={vals!r:.300} len={ln}; expected {exp!r:.300}'
                if pend:
                    sup = []
                    for t in pend['supplied']:
                        try:
                            sup.append(norm_t(t))
                        except Exception:
                            sup.append(('unmodelled',))
                    coherent = (it == vals and ln == len(it) and it[:n] == exp and it[n:] == sup[:len(it) - n])
                    fail('C09.atomic.prefix-applied' if coherent else 'C09.atomic.torn', 'after failed growth: ' + detail)
                if e.go and e.extra.get('last_growth') and not e.extra.get('failed'):
                    fail('C09.prefix', detail)
                fail('C09.isolation', detail, cls_='changed-by:' + self.site_of(op))
            if not e.go or not e.extra.get('last_growth'):
                st, s = call(snap_index, obj)
                if st == 'ok' and m.dts is not None:
                    ex = expected_index_snap(m, s)
                    if s != ex:
                        fail('C09.isolation', first_diff(ex, s), cls_='changed-by:' + self.site_of(op))
            return
        if P == 'C02':
            o = 'C02.bijection'
            if 'raise' in (st_i, st_v, st_l):
                bad = [x for s_, x in ((st_i, it), (st_v, vals), (st_l, ln)) if s_ == 'raise'][0]
                fail(o, f'read raised {type(bad).__name__}: {bad}')
            if ln != n:
                fail(o, f'len {ln} != {n}')
            if it != exp:
                fail(o, f'iteration {it!r:.300} != {exp!r:.300}')
            if vals != exp:
                fail(o, f'values {vals!r:.300} != {exp!r:.300}')
            if len(set(vals)) != len(vals):
                if raw_duplicates(obj):
                    fail('C02.unique', f'duplicate labels held: {vals!r:.300}')
                # labels that differ for Python (datetime.datetime vs numpy.datetime64 of the same instant) but not for the
                # model's normalisation: the index is unique by the library's own notion; the model cannot follow it
                self.stats['unmodelled:labels-equal-only-after-normalisation'] += 1
                self.ents.pop(e.h, None)
                return
            st, rv = call(lambda: [norm_t(t) for t in reversed(obj)])
            if st == 'raise' or rv != exp[::-1]:
                fail(o, f'reversed {rv!r:.300}')
            st, pos = call(lambda: obj.positions.tolist())
            if st == 'raise' or pos != list(range(n)):
                fail(o, f'positions {pos!r:.200}')
            for i, t in enumerate(m.raw):
                st, p = call(obj.loc_to_iloc, t)
                if st == 'raise' or not isinstance(p, (int, np.integer)) or int(p) != i:
                    fail(o, f'loc_to_iloc({t!r}) -> {p!r}, expected {i}')
                st, c = call(lambda: t in obj)
                if st == 'raise' or c is not True:
                    fail(o, f'{t!r} in index -> {c!r}')
            if n:
                fresh = tuple(['never'] * m.depth)
                st, c = call(lambda: fresh in obj)
                if st == 'ok' and c is not False:
                    fail(o, f'fresh label membership -> {c!r}')
                # non-members assembled from held level labels
                held = set(exp)
                seen = 0
                for a in m.raw[:4]:
                    for b in m.raw[-4:]:
                        t = a[:-1] + (b[-1],)
                        if norm_t(t) in held or seen > 12:
                            continue
                        seen += 1
                        st, c = call(lambda: t in obj)
                        if st == 'ok' and c is not False:
                            fail(o, f'tuple {t!r} is not held but reported as a member')
                self._length_probes(obj, m, fail, o)
            return
        if P == 'C05':
            o = 'C05.grow' if (pend or (e.go and e.extra.get('last_growth'))) else 'C05.views'
            if 'raise' in (st_i, st_v, st_l):
                bad = [x for s_, x in ((st_i, it), (st_v, vals), (st_l, ln)) if s_ == 'raise'][0]
                fail(o, f'read raised {type(bad).__name__}: {bad}')
            if it != exp:
                fail(o, f'label tuples {it!r:.300} != {exp!r:.300}')
            if vals != exp:
                fail('C05.views', f'2-D values {vals!r:.300} != tuples {exp!r:.300}')
            if ln != n:
                fail('C05.views', f'len {ln} != {n}')
            st, d = call(lambda: obj.depth)
            if st == 'raise' or d != m.depth:
                fail('C05.views', f'depth {d!r} != {m.depth}')
            st, sh = call(lambda: tuple(obj.shape))
            if st == 'raise' or sh != (n, m.depth):
                if not (n == 0):
                    fail('C05.views', f'shape {sh!r} != {(n, m.depth)}')
            if n:
                self._length_probes(obj, m, fail, 'C05.views')
            if n:
                for dd in range(m.depth):
                    st, col = call(lambda: arr_cells(obj.values_at_depth(dd)))
                    if st == 'raise' or col != [t[dd] for t in exp]:
                        fail('C05.views', f'values_at_depth({dd}) {col!r:.300}')
            for i, t in enumerate(m.raw):
                st, c = call(lambda: t in obj)
                if st == 'raise' or c is not True:
                    fail('C05.views', f'{t!r} in index -> {c!r}')
                st, p = call(obj.loc_to_iloc, t)
                if st == 'raise' or not isinstance(p, (int, np.integer)) or int(p) != i:
                    fail('C05.views', f'loc_to_iloc({t!r}) -> {p!r}, expected {i}')
            if n:
                fresh = tuple(['never'] * m.depth)
                st, c = call(lambda: fresh in obj)
                if st == 'ok' and c is not False:
                    fail('C05.views', f'absent tuple reported as member')
            return
