#!/venv/bin/python
'''Self-tests of the machinery (never decide a property).

  selftest.py determinism [--seeds N] [--repo PATH]   digest of every run must not depend on the process,
                                                      the hash seed, or what ran before it
  selftest.py digests --world W --profile P --lo A --hi B   (internal: print digests, used by the above)
'''
import argparse
import json
import os
import subprocess
import sys

VERIF = os.path.dirname(os.path.abspath(__file__))
sys.path.insert(0, VERIF)


def digests(world, profile, lo, hi, base_seed, tier='quick', reverse=False):
    from sim.core import Chooser, derive_seed
    from sim import runner
    import checks
    W = checks.world_by_name(world)
    out = {}
    rng = range(lo, hi)
    if reverse:
        rng = reversed(rng)
    for i in rng:
        seed = derive_seed(base_seed, W.NAME, profile, i)
        cfg = W.draw_config(Chooser(seed ^ 0x5bd1e995), profile, tier)
        r = runner.execute(W, profile, cfg, seed=seed)
        out[str(i)] = r['digest'] + (':' + r['violation']['signature'] if r['violation'] else '')
    return out


def main():
    ap = argparse.ArgumentParser()
    ap.add_argument('cmd')
    ap.add_argument('--seeds', type=int, default=30)
    ap.add_argument('--repo', default='/repo')
    ap.add_argument('--world')
    ap.add_argument('--profile')
    ap.add_argument('--lo', type=int, default=0)
    ap.add_argument('--hi', type=int, default=10)
    ap.add_argument('--base', type=int, default=777)
    ap.add_argument('--reverse', action='store_true')
    args = ap.parse_args()
    sys.path.insert(0, os.path.abspath(args.repo))
    if args.cmd == 'digests':
        print(json.dumps(digests(args.world, args.profile, args.lo, args.hi, args.base, reverse=args.reverse)))
        return 0
    if args.cmd == 'determinism':
        import checks
        bad = 0
        total = 0
        for prop, parts in sorted(checks.CHECKS.items()):
            for part in parts:
                w, p = part['world'], part['profile']
                a = digests(w, p, 0, args.seeds, args.base)
                b = digests(w, p, 0, args.seeds, args.base, reverse=True)  # same process, other order
                outs = []
                for hs, rev in (('1', False), ('4242', True)):
                    env = dict(os.environ)
                    env['PYTHONHASHSEED'] = hs
                    cmd = [sys.executable, os.path.join(VERIF, 'selftest.py'), 'digests', '--world', w, '--profile', p,
                           '--lo', '0', '--hi', str(args.seeds), '--base', str(args.base), '--repo', args.repo]
                    if rev:
                        cmd.append('--reverse')
                    pr = subprocess.run(cmd, capture_output=True, text=True, timeout=900, env=env)
                    if pr.returncode != 0:
                        print(f'SELFTEST-ERROR {w}/{p}: fresh interpreter failed:\n{pr.stderr[-2000:]}')
                        return 2
                    outs.append(json.loads(pr.stdout.strip().splitlines()[-1]))
                for i in a:
                    total += 1
                    vals = {a[i], b[i], outs[0][i], outs[1][i]}
                    if len(vals) != 1:
                        bad += 1
                        print(f'NONDETERMINISTIC world={w} profile={p} run={i}: {sorted(vals)}')
                print(f'determinism {w}/{p}: {len(a)} seeds x 4 executions (2 orders in-process, 2 fresh interpreters with other PYTHONHASHSEED) compared')
        if bad:
            print(f'SELFTEST-ERROR {bad}/{total} runs are not deterministic')
            return 2
        print(f'SELFTEST-OK determinism: {total} runs identical across 4 executions each')
        return 0
    if args.cmd == 'reach':
        # reach probes: a probe stuck at zero means the workload or fault mix no longer reaches that condition
        import checks
        from sim import runner
        required = {
            ('grow', 'C02'): ['probe:map-promoted-from-loc_is_iloc', 'probe:growth-after-cache-materialised', 'fault:construct-duplicate', 'fault:growth-duplicate',
                             'fault:construct-duplicate-after-dtype-conversion'],
            ('grow', 'C05'): ['probe:growth-after-cache-materialised', 'query-cache:cold', 'query-cache:warm', 'query:frame', 'query:series', 'fault:growth-non-tree-reentry'],
            ('grow', 'C09'): ['probe:valid-growth-after-failed-growth', 'probe:extend-from-pool-member', 'fault:caller-writes-to-retained-buffer',
                              'fault:growth-duplicate-columns-partial', 'fault:growth-pairs-iterable-fails', 'fault:growth-value-iterable-fails',
                              'probe:shadow-compared-after-rejected-growth'],
            ('store', 'C17'): ['probe:evict', 'probe:evicted-frame-previously-addressed', 'probe:served-after-heal', 'probe:access-while-stale',
                               'probe:generator-advanced-between-other-ops', 'probe:export-and-reopen', 'fault:fired-oserror', 'fault:fired-vanish',
                               'fault:fs-replace_older', 'fault:fs-truncate', 'fault:fs-delete', 'fault:stale-read-raised', 'export-config:default', 'export-config:default_noindex',
                               'export-config:bare', 'probe:store-read-or-written-by-several-workers', 'fault:fired-read-error',
                               'probe:read-failed-after-earlier-members-were-read'],
            ('pool', 'C18'): ['probe:out-of-order-completion', 'probe:several-tasks-in-flight', 'pool:completed-at-submit-time', 'pool:chunked-map',
                              'fault:worker-crash-surfaced', 'fault:task-failure-surfaced', 'fault:unpicklable-surfaced'],
            ('pool', 'C18T'): ['probe:pre-empted-inside-task', 'pool:lock-contention', 'pool:thread-switches', 'fault:thread-stalled-inside-state-writing-function',
                              'pool:traced-lines-in-state-writing-functions'],
            ('quilt', 'C19'): ['probe:operation-on-quilt-with-unresolved-axis-map', 'probe:quilt-drove-bus-at-its-max_persist-limit',
                               'probe:direct-bus-access-between-quilt-operations', 'probe:served-from-memory-while-stale', 'fault:stale-read-raised',
                               'probe:date-labels-selected-by-string', 'probe:window-options-checked-against-the-concatenated-frame'],
            ('pool', 'C19B'): ['batch:direct-equal', 'batch:export-checked', 'probe:out-of-order-completion'],
            ('alias', 'C01'): ['fault:adversary-write', 'fault:failing-call', 'fault:write-to-handed-array-refused', 'fault:mutation-attempt-refused'],
        }
        bad = 0
        known = runner.load_known()
        for prop, parts in sorted(checks.CHECKS.items()):
            for part in parts:
                W = checks.world_by_name(part['world'])
                sigs = frozenset(k['signature'] for k in known if k.get('status') == 'known')
                tot = runner.run_batch(W, part['profile'], 'quick', args.base, 3000, 60, min(8, os.cpu_count() or 4), known_sigs=sigs)
                for key in required.get((part['world'], part['profile']), []):
                    n = sum(v for k, v in tot['stats'].items() if k == key or k.startswith(key))
                    flag = 'ok' if n > 0 else 'STUCK-AT-ZERO'
                    if n == 0:
                        bad += 1
                    print(f"reach {part['world']}/{part['profile']} {key}: {n} {flag}")
        print('SELFTEST-OK reach' if not bad else f'SELFTEST-ERROR {bad} probes stuck at zero')
        return 0 if not bad else 2
    print('unknown command')
    return 2


if __name__ == '__main__':
    sys.exit(main())
