'''Registry of checks (property -> worlds/profiles/budgets) and the per-property driver:
seeded batch -> violations grouped by signature -> known-finding match | minimise + replay file +
fresh-process confirmation -> VIOLATION lines -> evidence file.'''
import collections
import json
import os
import sys
import time

from sim import runner
from sim.core import HarnessError

VERIF = os.path.dirname(os.path.abspath(__file__))


def world_by_name(name):
    from worlds.grow import GrowWorld
    table = {'grow': GrowWorld}
    try:
        from worlds.store import StoreWorld
        table['store'] = StoreWorld
    except ImportError:
        pass
    try:
        from worlds.pool import PoolWorld
        table['pool'] = PoolWorld
    except ImportError:
        pass
    try:
        from worlds.quilt import QuiltWorld
        table['quilt'] = QuiltWorld
    except ImportError:
        pass
    try:
        from worlds.alias import AliasWorld
        table['alias'] = AliasWorld
    except ImportError:
        pass
    return table[name]


# property -> list of parts; each part: world name, profile, (runs, wall budget seconds) per tier
CHECKS = {
    'C01': [{'world': 'alias', 'profile': 'C01', 'quick': (60000, 45), 'thorough': (1500000, 600)}],
    'C02': [{'world': 'grow', 'profile': 'C02', 'quick': (25000, 45), 'thorough': (3000000, 600)}],
    'C05': [{'world': 'grow', 'profile': 'C05', 'quick': (25000, 45), 'thorough': (3000000, 600)}],
    'C09': [{'world': 'grow', 'profile': 'C09', 'quick': (25000, 45), 'thorough': (3000000, 600)}],
    'C18': [{'world': 'pool', 'profile': 'C18', 'quick': (20000, 30), 'thorough': (1500000, 400)},
            {'world': 'pool', 'profile': 'C18T', 'quick': (6000, 30), 'thorough': (500000, 400)}],
    'C19': [{'world': 'quilt', 'profile': 'C19', 'quick': (12000, 30), 'thorough': (1000000, 400)},
            {'world': 'pool', 'profile': 'C19B', 'quick': (12000, 20), 'thorough': (1000000, 200)}],
    'C17': [{'world': 'store', 'profile': 'C17', 'quick': (20000, 45), 'thorough': (1500000, 600)}],
}

COMPONENTS = {
    'store': {
        'real': ['static_frame (Bus, Store*, Frame I/O)', 'zipfile', 'sqlite3', 'pickle', 'csv', 'real files on tmpfs'],
        'stub': ['file modification times (os.utime from the simulated clock)', 'os.path.getmtime (armed to fail once mid-call)',
                 'the file-system actor (touch / rewrite / replace / truncate / delete / restore events)', 'the client issuing accesses'],
    },
    'pool': {
        'real': ['static_frame (node_iter, Batch, store_zip and everything the tasks call)', 'pickle (process-mode round trips)', 'real threads in baton mode'],
        'stub': ['ThreadPoolExecutor / ProcessPoolExecutor (SimExecutor honouring the documented Executor contract)',
                 'thread scheduling (baton: one runnable thread at a time, line-level pre-emption)', 'module-level locks (SimRLock: contention is a scheduling point)',
                 'worker crashes / task failures'],
    },
    'grow': {
        'real': ['static_frame (all of it, from the working tree)', 'numpy', 'automap', 'pickle', 'copy'],
        'stub': ['the caller (iterables that fail after k items, invalid arguments, retained arrays)',
                 'PositionsAllocator capacity (reset per run to a drawn value)'],
    },
}


def run_property(prop, parts, tier, seed, repo, args):
    t0 = time.time()
    known = runner.load_known()
    known_sigs = frozenset(k['signature'] for k in known if k.get('status') == 'known' and k.get('property') == prop)
    exit_code = 0
    ev_parts = []
    printed_known = set()
    n_viol = 0
    for part in parts:
        world_cls = world_by_name(part['world'])
        runs, budget = part[tier]
        if args.runs:
            runs = args.runs
        if args.budget:
            budget = args.budget
        print(f"SEED {seed} property={prop} world={part['world']} profile={part['profile']} tier={tier} runs<={runs} budget={budget}s workers={args.workers}")
        sys.stdout.flush()
        total = runner.run_batch(world_cls, part['profile'], tier, seed, runs, budget, args.workers,
                                 known_sigs=known_sigs)
        if total['errors']:
            # an exception inside the checking machinery itself (not the library): the run is void, never a pass.
            # A handful among tens of thousands of generated runs is reported and counted; more than that fails the check.
            for e in total['errors'][:3]:
                print(f"HARNESS-WARNING run={e['run']} seed={e['seed']} raised inside the checking machinery (run discarded)\n{e['trace']}")
            if len(total['errors']) > max(5, total['runs'] // 500):
                raise HarnessError(f"{len(total['errors'])} runs raised inside the checking machinery")
        # known findings that fired
        for sig, cnt in sorted(total['known_hits'].items()):
            k = runner.match_known(known, prop, sig)
            if sig not in printed_known:
                printed_known.add(sig)
                print(f"KNOWN-FINDING: property={prop} {sig} :: {k['what']} (hit in {cnt} runs)")
        # new violations, grouped by signature
        groups = collections.OrderedDict()
        for v in sorted(total['violations'], key=lambda v: v['run']):
            groups.setdefault(v['violation']['signature'], []).append(v)
        part_viol = []
        for sig, vs in groups.items():
            vprop = vs[0]['violation']['property']
            # smallest recorded instance first
            vs.sort(key=lambda v: (len(v['ops']), v['run']))
            v = vs[0]
            cfg, ops, tried = runner.minimise(world_cls, part['profile'], v['config'], v['ops'], sig,
                                              budget_runs=300 if tier == 'quick' else 600,
                                              budget_s=30 if tier == 'quick' else 60, known_sigs=known_sigs)
            r = runner.execute(world_cls, part['profile'], cfg, ops=ops, known_sigs=known_sigs)
            if r['violation'] is None or r['violation']['signature'] != sig:
                # minimisation lost it (should not happen): fall back to the recorded run
                cfg, ops = v['config'], v['ops']
                r = runner.execute(world_cls, part['profile'], cfg, ops=ops, known_sigs=known_sigs)
                if r['violation'] is None or r['violation']['signature'] != sig:
                    raise HarnessError(f'violation {sig} (seed {v["seed"]}) does not reproduce in-process: nondeterministic harness')
            rec = {
                'property': vprop, 'world': part['world'], 'profile': part['profile'], 'seed': v['seed'],
                'run_index': v['run'], 'base_seed': seed, 'config': cfg, 'ops': r['ops'],
                'oracle': r['violation']['oracle'], 'signature': sig, 'step': r['violation']['step'],
                'detail': r['violation']['detail'], 'digest': r['digest'], 'known_sigs': sorted(known_sigs),
                'occurrences_in_batch': len(vs), 'original_ops': len(v['ops']), 'minimise_runs': tried,
                'versions': runner.versions(),
                'how_to_replay': f'/venv/bin/python /verif/run_check.py --replay <this file> --repo {repo}',
            }
            tag = f"{part['profile']}-{v['seed']}-{__import__("sim.core").core.h64(sig) % 10**6:06d}"
            path = runner.write_replay(vprop, world_cls, part['profile'], rec, tag)
            if not args.no_confirm:
                ok, out = runner.confirm_in_fresh_process(path, repo)
                if not ok:
                    raise HarnessError(f'replay {path} did not reproduce in a fresh process:\n{out}')
            print(f"VIOLATION property={vprop} replay={path}")
            print(f"  signature={sig} step={rec['step']} ops={len(rec['ops'])} (from {rec['original_ops']}) seen_in_runs={len(vs)}")
            print(f"  detail={rec['detail'][:600]}")
            sys.stdout.flush()
            exit_code = 1
            n_viol += 1
            part_viol.append({'signature': sig, 'runs': len(vs), 'replay': path})
        ev_parts.append((part, total, part_viol))
    if not args.no_evidence:
        write_evidence(prop, tier, seed, ev_parts, time.time() - t0, n_viol, known, printed_known)
    tot_runs = sum(t['runs'] for _, t, _ in ev_parts)
    print(f"DONE property={prop} tier={tier} runs={tot_runs} violations={n_viol} known_findings_hit={len(printed_known)} wall={time.time() - t0:.1f}s")
    return exit_code


def write_evidence(prop, tier, seed, ev_parts, wall, n_viol, known, printed_known):
    runs = sum(t['runs'] for _, t, _ in ev_parts)
    steps = sum(t['steps'] for _, t, _ in ev_parts)
    sim_wall = sum(t['wall'] for _, t, _ in ev_parts) or 1e-9
    stats = collections.Counter()
    for _, t, _ in ev_parts:
        stats.update(t['stats'])
    faults = {k[6:]: v for k, v in sorted(stats.items()) if k.startswith('fault:')}
    probes = {k[6:]: v for k, v in sorted(stats.items()) if k.startswith('probe:')}
    opsc = {k[3:]: v for k, v in sorted(stats.items()) if k.startswith('op:')}
    other = {k: v for k, v in sorted(stats.items()) if not k.startswith(('fault:', 'probe:', 'op:'))}
    samples = []
    for part, t, _ in ev_parts:
        for s in t['samples'][:2]:
            samples.append({'world': part['world'], 'profile': part['profile'], **s})
    parts_desc = []
    for part, t, pv in ev_parts:
        parts_desc.append({
            'world': part['world'], 'profile': part['profile'], 'runs': t['runs'], 'steps': t['steps'],
            'wall_s': round(t['wall'], 2), 'runs_per_hour': int(t['runs'] / max(t['wall'], 1e-9) * 3600),
            'distinct_states': len(t['states']), 'distinct_interleavings': len(t['inter']),
            'distinct_nontrivial_runs': len(t['digests_nontrivial']), 'simulated_time': t['sim_time'],
            'stopped_on_wall_budget': t['stopped_early'], 'violations': pv, 'runs_discarded_for_harness_exceptions': len(t['errors']),
            'components': COMPONENTS.get(part['world'], {}),
        })
    ev = {
        'property_id': prop,
        'tier': tier,
        'seed': seed,
        'level': 'exploration',
        'coverage': {
            'evaluations': runs,
            'distinct_nontrivial': sum(len(t['digests_nontrivial']) for _, t, _ in ev_parts),
            'rule': ('one evaluation = one simulated run (seeded history of operations, schedules and faults, '
                     'checked against a reference model after every step); distinct = distinct SHA-256 digest of the '
                     'canonical event stream; non-trivial = the run performed at least one growth / eviction / '
                     'scheduling decision or fired at least one injected fault'),
            'samples': samples or [{'note': 'no run reached two steps'}],
            'steps_total': steps,
            'runs_per_hour': int(runs / sim_wall * 3600),
            'seeds_per_hour': int(runs / sim_wall * 3600),
            'simulated_time_total': sum(t['sim_time'] for _, t, _ in ev_parts),
            'simulated_time_unit': 'logical steps (simulated-clock ticks where the world has a clock)',
            'distinct_states': sum(len(t['states']) for _, t, _ in ev_parts),
            'distinct_states_measure': 'distinct hashes of (reference-model state, cache/LRU status) after a step',
            'distinct_interleavings': sum(len(t['inter']) for _, t, _ in ev_parts),
            'faults_fired': faults,
            'reach_probes': probes,
            'operations': opsc,
            'other_counters': other,
            'parts': parts_desc,
            'known_findings_hit': sorted(printed_known),
            'exhaustive': False,
        },
        'assumptions': [
            'sampled, not enumerated: a clean batch is evidence, not proof',
            'reference models are plain Python lists/dicts written for this harness; no static-frame code computes an expectation',
            'NumPy, automap, zipfile, sqlite3 and pickle are trusted as they are (real code, not stubbed)',
            'the caller, worker pools, thread scheduler, file clock and allocator capacity are simulator-owned stubs',
        ],
        'wall_s': round(wall, 2),
        'violations': n_viol,
    }
    os.makedirs(os.path.join(VERIF, 'evidence'), exist_ok=True)
    with open(os.path.join(VERIF, 'evidence', f'{prop}.json'), 'w') as f:
        json.dump(ev, f, indent=1, default=str)
