'''Baton scheduler: real threads, exactly one of which runs at any time. Line events (sys.settrace)
inside the traced code are pre-emption points; blocking on a simulated future is a scheduling
point. Which thread runs next, and whether a line pre-empts, are Decider decisions, so a recorded
decision list replays the interleaving exactly.
'''
import sys
import threading

from sim.core import HarnessError, h64


def _writes_shared_state(code):
    import dis
    if code.co_name in ('__init__', '__new__', '__setstate__', '__init_subclass__'):
        return False  # writes to an object no other thread has yet
    for ins in dis.get_instructions(code):
        if ins.opname in ('STORE_ATTR', 'STORE_GLOBAL', 'DELETE_ATTR'):
            return True
    return False


class _Abort(BaseException):
    pass


class _TS:
    __slots__ = ('tid', 'sem', 'started', 'done', 'cond', 'thread', 'name')

    def __init__(self, tid, name):
        self.tid = tid
        self.sem = threading.Semaphore(0)
        self.started = False
        self.done = False
        self.cond = None
        self.thread = None
        self.name = name


class Baton:
    WAIT = 120

    STALL_BUDGETS = (4, 15, 60, 250, 1000)

    def __init__(self, decider, p_preempt, stats, prefixes, max_switches=4000, hot_weight=1, stall_gap=0, stall_after_release=False):
        self.decider = decider
        self.p = p_preempt
        self.stats = stats
        self.prefixes = tuple(prefixes)
        self.threads = {}
        self.next_tid = 1
        main = _TS(0, 'main')
        main.started = True
        self.threads[0] = main
        self.current = 0
        self.abort = False
        self.switches = 0
        self.max_switches = max_switches
        self.trace_sig = 0
        self.error = None
        self.lines = 0
        # lines of functions that write attributes or globals (where shared state is published) count hot_weight
        # times towards the next pre-emption: the schedule search is biased to the windows between two writes
        self.hot_weight = max(1, int(hot_weight))
        self._hot = {}
        self.hot_lines = 0
        self.gap = max(2, int(2 / max(p_preempt, 1e-3)))
        self.countdown = self.decider.decide(self.gap)
        # stalled-thread mode (a "slow node"): every so many lines of state-writing functions the running thread is
        # parked *inside* that function while the others run on for a decided number of their lines; once woken it runs
        # a decided, short burst of lines and is parked again. Deep windows (A stopped between two of its writes while B
        # completes whole calls) are reached with few decisions instead of a lucky run of per-line coin flips.
        self.stall_gap = int(stall_gap)
        self.stalled = {}
        self.stalls = 0
        self.burst_tid = None
        self.burst = 0
        self.stall_cd = self.decider.decide(self.stall_gap) if self.stall_gap else 0
        self.after_release = None  # thread that has just released a simulated lock: its next line is a favoured stall point
        self.stall_after_release = bool(stall_after_release)

    # -- bookkeeping
    def _runnable(self, exclude=None):
        while True:
            out = []
            for tid in sorted(self.threads):
                t = self.threads[tid]
                if t.started and not t.done and (t.cond is None or t.cond()) and tid not in self.stalled:
                    out.append(tid)
            if self.stalled and not [t for t in out if t != exclude]:
                # nothing else can run: the stalled thread with the least remaining budget wakes up
                tid = min(self.stalled, key=lambda k: (self.stalled[k], k))
                del self.stalled[tid]
                continue
            return out

    def _note(self, frm, to, where):
        self.switches += 1
        self.trace_sig = h64(f'{self.trace_sig}|{frm}>{to}@{where}')

    def _switch_to(self, me, nxt, where):
        if nxt == me.tid:
            return
        self._note(me.tid, nxt, where)
        self.current = nxt
        self.threads[nxt].sem.release()
        if not me.sem.acquire(timeout=self.WAIT):
            self.abort = True
            raise HarnessError('baton: thread waited too long for its turn')
        if self.abort:
            raise _Abort()

    # -- API for the running thread
    def yield_point(self, where='yield'):
        me = self.threads[self.current]
        r = self._runnable()
        if me.tid not in r:
            r = r + [me.tid] if not r else r
        if len(r) <= 1:
            return
        nxt = r[self.decider.decide(len(r))]
        self._switch_to(me, nxt, where)

    def block_until(self, cond, where='block'):
        me = self.threads[self.current]
        me.cond = cond
        try:
            while not cond():
                r = [t for t in self._runnable(exclude=me.tid) if t != me.tid]
                if not r:
                    self.abort = True
                    raise HarnessError('baton: deadlock, nothing is runnable')
                nxt = r[self.decider.decide(len(r))]
                self._switch_to(me, nxt, where)
        finally:
            me.cond = None

    # -- threads
    def spawn(self, fn, name):
        tid = self.next_tid
        self.next_tid += 1
        ts = _TS(tid, name)
        self.threads[tid] = ts

        def runner():
            ts.sem.acquire()
            if self.abort:
                ts.done = True
                return
            sys.settrace(self._trace)
            try:
                fn()
            except _Abort:
                pass
            except HarnessError as e:
                self.error = e
            finally:
                sys.settrace(None)
                ts.done = True
                if not self.abort:
                    r = self._runnable()
                    if r:
                        nxt = r[self.decider.decide(len(r))]
                        self._note(tid, nxt, 'exit')
                        self.current = nxt
                        self.threads[nxt].sem.release()
                    else:
                        self.error = self.error or HarnessError('baton: last thread exited with nothing runnable')
                        self.abort = True
                        self.threads[0].sem.release()
        th = threading.Thread(target=runner, name=f'sim-{name}', daemon=True)
        ts.thread = th
        th.start()
        return ts

    def start(self, ts):
        ts.started = True

    # -- tracing
    def _trace(self, frame, event, arg):
        if event != 'call':
            return None
        code = frame.f_code
        if code.co_filename.startswith(self.prefixes):
            if self.hot_weight > 1 or self.stall_gap:
                hot = self._hot.get(code)
                if hot is None:
                    hot = self._hot[code] = _writes_shared_state(code)
                if hot:
                    return self._local_hot
            return self._local
        return None

    def _local_hot(self, frame, event, arg):
        if event == 'line':
            self.lines += 1
            self.hot_lines += 1
            if (self.stall_gap or self.stalled or self.after_release is not None) and self._stall_step(frame, True):
                return self._local_hot
            self.countdown -= self.hot_weight
            if self.countdown < 0:
                self.countdown = self.decider.decide(self.gap) if self.switches < self.max_switches else 10 ** 9
                self.yield_point(frame.f_code.co_name)
        return self._local_hot

    def _stall_step(self, frame, hot):
        '''Stalled-thread bookkeeping at a line event of the running thread; True if it switched.'''
        if self.switches >= self.max_switches:
            return False
        cur = self.current
        me = self.threads[cur]
        if self.stalled:
            woke = None
            for tid in sorted(self.stalled):
                self.stalled[tid] -= 1
                if self.stalled[tid] <= 0:
                    del self.stalled[tid]
                    if woke is None:
                        woke = tid
            if woke is not None:
                t = self.threads[woke]
                if t.started and not t.done and (t.cond is None or t.cond()):
                    self.burst_tid = woke
                    self.burst = self.decider.decide(4)
                    self._switch_to(me, woke, 'wake')
                    return True
        stall = False
        if self.after_release == cur:
            # the line after a lock was released: what the lock protected can now be changed by others before this thread reads it
            self.after_release = None
            if self.decider.decide(2):
                stall = True
        if stall:
            pass
        elif self.burst_tid == cur:
            if self.burst <= 0:
                self.burst_tid = None
                stall = True
            else:
                self.burst -= 1
        elif hot and self.stall_gap:
            self.stall_cd -= 1
            if self.stall_cd < 0:
                self.stall_cd = self.decider.decide(self.stall_gap)
                stall = True
        if stall:
            r = [t for t in self._runnable(exclude=cur) if t != cur]
            if r:
                self.stalled[cur] = self.STALL_BUDGETS[self.decider.decide(len(self.STALL_BUDGETS))]
                self.stalls += 1
                self._switch_to(me, r[self.decider.decide(len(r))], 'stall:' + frame.f_code.co_name)
                return True
        return False

    def _local(self, frame, event, arg):
        if event == 'line':
            self.lines += 1
            if (self.stalled or self.burst_tid is not None or self.after_release is not None) and self._stall_step(frame, False):
                return self._local
            self.countdown -= 1
            if self.countdown < 0:
                # one decision = how many traced lines run before the next pre-emption point
                self.countdown = self.decider.decide(self.gap) if self.switches < self.max_switches else 10 ** 9
                self.yield_point(frame.f_code.co_name)
        return self._local

    def close(self):
        self.abort = True
        for t in self.threads.values():
            if t.tid != 0 and not t.done:
                t.sem.release()
        for t in self.threads.values():
            if t.thread is not None:
                t.thread.join(timeout=5)


class SimRLock:
    '''Re-entrant lock owned by the simulator: contention is a scheduling point, never a real block.'''

    def __init__(self, baton):
        self.baton = baton
        self.owner = None
        self.count = 0

    def acquire(self, blocking=True, timeout=-1):
        b = self.baton
        me = b.current
        if self.owner is not None and self.owner != me:
            b.stats['pool:lock-contention'] += 1
            if not blocking:
                return False
            b.block_until(lambda: self.owner is None, 'lock')
        self.owner = me
        self.count += 1
        return True

    def release(self):
        self.count -= 1
        if self.count <= 0:
            if self.baton.stall_after_release:
                self.baton.after_release = self.owner
            self.owner = None
            self.count = 0

    def __enter__(self):
        self.acquire()
        return self

    def __exit__(self, *a):
        self.release()
        return False


def patch_locks(baton, package='static_frame'):
    '''Replace module-level threading locks of the package by SimRLocks; returns an undo list.'''
    import sys as _sys
    lock_types = (type(threading.RLock()), type(threading.Lock()))
    undo = []
    shared = {}
    for name, mod in sorted(_sys.modules.items()):
        if mod is None or not (name == package or name.startswith(package + '.')):
            continue
        for attr, val in list(vars(mod).items()):
            if isinstance(val, lock_types):
                if id(val) not in shared:
                    shared[id(val)] = SimRLock(baton)
                undo.append((mod, attr, val))
                setattr(mod, attr, shared[id(val)])
    return undo


def unpatch_locks(undo):
    for mod, attr, val in undo:
        setattr(mod, attr, val)
