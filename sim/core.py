'''Core of the deterministic simulator: seed derivation, the Chooser (the only source of
randomness), the Decider (PRNG-or-recorded choice stream used inside operations), the event log
with its canonical digest, and the exception classes that separate a property violation from a
harness error.

Nothing in this module reads a clock, an address, an id() or an environment-dependent value.
'''
import hashlib
import json
import random

MASK63 = (1 << 63) - 1


def derive_seed(base: int, world: str, profile: str, i: int) -> int:
    h = hashlib.sha256(f'{base}|{world}|{profile}|{i}'.encode()).digest()
    return int.from_bytes(h[:8], 'big') & MASK63


class HarnessError(Exception):
    '''The machinery itself misbehaved (non-determinism, hang, bad replay file...). Never a pass, never a violation.'''


class Violation(Exception):
    '''A property oracle failed.

    oracle: dotted identifier, first component is the property id (e.g. 'C09.atomic.torn')
    site:   the operation kind / call site that exposed it (e.g. 'FrameGO.extend(Frame)')
    cls:    input class of the exposing call (e.g. 'partial-dup'); may be ''
    detail: free text (expected / observed); never part of the signature
    '''

    def __init__(self, oracle, site, cls='', detail=''):
        super().__init__(f'{oracle}|{site}|{cls}: {detail}')
        self.oracle = oracle
        self.site = site
        self.cls = cls
        self.detail = str(detail)[:2000]

    @property
    def property_id(self):
        return self.oracle.split('.')[0]

    @property
    def signature(self):
        return f'{self.oracle}|{self.site}|{self.cls}'


class Chooser:
    '''Every random decision of a generated run goes through one of these. Counts draws.'''

    def __init__(self, seed: int):
        self.seed = seed
        self._r = random.Random(seed)
        self.draws = 0

    def randint(self, a, b):
        self.draws += 1
        return self._r.randint(a, b)

    def below(self, n):
        self.draws += 1
        return self._r.randrange(n)

    def chance(self, p):
        self.draws += 1
        return self._r.random() < p

    def random(self):
        self.draws += 1
        return self._r.random()

    def choice(self, seq):
        self.draws += 1
        return seq[self._r.randrange(len(seq))]

    def weighted(self, pairs):
        '''pairs: sequence of (item, weight); deterministic order.'''
        self.draws += 1
        total = sum(w for _, w in pairs)
        x = self._r.random() * total
        acc = 0.0
        for item, w in pairs:
            acc += w
            if x < acc:
                return item
        return pairs[-1][0]

    def sample(self, seq, k):
        self.draws += 1
        return self._r.sample(list(seq), k)

    def shuffled(self, seq):
        self.draws += 1
        out = list(seq)
        self._r.shuffle(out)
        return out

    def subset(self, seq, p=0.5):
        return [x for x in seq if self.chance(p)]


class Decider:
    '''A stream of bounded integer decisions made *inside* an operation (which task completes
    next, whether to pre-empt here, which thread runs). In generation mode it draws from the
    Chooser and records; in replay mode it reads the recorded list (0 when exhausted, value
    reduced modulo n so that a shrunk list always yields a legal decision).'''

    def __init__(self, chooser=None, recorded=None):
        self.chooser = chooser
        self.recorded = list(recorded) if recorded is not None else None
        self.pos = 0
        self.out = []

    def decide(self, n: int) -> int:
        if n <= 1:
            return 0
        if self.recorded is not None:
            v = self.recorded[self.pos] if self.pos < len(self.recorded) else 0
            self.pos += 1
            v = v % n
        else:
            v = self.chooser.below(n)
        self.out.append(v)
        return v

    def chance(self, p: float) -> bool:
        '''Bernoulli decision recorded as 0/1.'''
        if self.recorded is not None:
            v = self.recorded[self.pos] if self.pos < len(self.recorded) else 0
            self.pos += 1
            v = 1 if v else 0
        else:
            v = 1 if self.chooser.random() < p else 0
        self.out.append(v)
        return bool(v)


def canon(obj) -> str:
    return json.dumps(obj, sort_keys=True, separators=(',', ':'), default=_canon_default)


def _canon_default(o):
    import numpy as np
    if isinstance(o, (np.integer,)):
        return int(o)
    if isinstance(o, (np.floating,)):
        return float(o)
    if isinstance(o, (np.bool_,)):
        return bool(o)
    if isinstance(o, (np.datetime64, np.timedelta64)):
        return str(o)
    if isinstance(o, (set, frozenset)):
        return sorted(map(repr, o))
    if isinstance(o, tuple):
        return list(o)
    if isinstance(o, bytes):
        return o.hex()
    import re
    return re.sub(r' at 0x[0-9a-fA-F]+', '', repr(o))


def h64(s: str) -> int:
    return int.from_bytes(hashlib.sha256(s.encode()).digest()[:8], 'big')


class EventLog:
    '''Canonical, address-free record of a run. digest() is what determinism tests compare.'''

    def __init__(self, keep=True):
        self._h = hashlib.sha256()
        self.n = 0
        self.keep = keep
        self.events = []
        self.states = set()

    def add(self, step, op, outcome, state_hash=None):
        line = canon([step, op, outcome, state_hash])
        self._h.update(line.encode())
        self._h.update(b'\n')
        self.n += 1
        if self.keep:
            self.events.append(line)
        if state_hash is not None:
            self.states.add(state_hash)

    def note(self, tag, payload=None):
        line = canon(['#', tag, payload])
        self._h.update(line.encode())
        self._h.update(b'\n')
        if self.keep:
            self.events.append(line)

    def digest(self):
        return self._h.hexdigest()
