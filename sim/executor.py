'''SimExecutor: an in-process stand-in for concurrent.futures.ThreadPoolExecutor / ProcessPoolExecutor
that honours the documented Executor contract (eager argument collection in map, results yielded in
submission order, FIFO start with at most max_workers tasks in flight, exceptions delivered at
result(), context-manager exit waits) and nothing more; which in-flight task completes next, whether
a task completes as early as submission time, task failures and worker crashes are decided by the
run's Decider, so that one seed is one schedule.

Two execution modes:
  inline  - tasks are atomic; used for both pool kinds. In process mode callable, arguments, results
            and exceptions go through a pickle round trip (no shared memory).
  baton   - thread pools only: every task runs in a real thread under sim.baton.Baton, pre-empted at
            line events inside static_frame and the workload.
'''
import itertools
import pickle
from concurrent.futures.process import BrokenProcessPool

from sim.core import HarnessError


class PoolSim:
    '''Per-run controller shared by all executors the library creates during an operation.'''

    def __init__(self, decider, stats, p_early=0.3, crash_at=None, abandon_after=None, baton=None):
        self.decider = decider
        self.stats = stats
        self.p_early = p_early
        self.crash_at = crash_at          # global completion count at which the (process) pool breaks
        self.completions = 0
        self.order = []                   # completion order (task indices, per executor: (eid, idx))
        self.starts = []
        self.executors = 0
        self.baton = baton
        self.max_in_flight = 0
        self.unpicklable = 0
        self.crashed = False


CURRENT = {'sim': None}


def _process_chunk(fn, chunk):
    return [fn(*args) for args in chunk]


class SimFuture:
    def __init__(self, ex, idx, fn, args, kwargs, payload=None):
        self.ex = ex
        self.idx = idx
        self.fn = fn
        self.args = args
        self.kwargs = kwargs
        self.payload = payload
        self.state = 'pending'
        self._result = None
        self._exc = None
        self._callbacks = []

    def done(self):
        return self.state in ('done', 'cancelled')

    def running(self):
        return self.state == 'running'

    def cancelled(self):
        return self.state == 'cancelled'

    def cancel(self):
        if self.state == 'pending':
            self.state = 'cancelled'
            if self in self.ex.pending:
                self.ex.pending.remove(self)
            return True
        return self.state == 'cancelled'

    def add_done_callback(self, fn):
        if self.done():
            fn(self)
        else:
            self._callbacks.append(fn)

    def _finish(self, result=None, exc=None):
        self._result = result
        self._exc = exc
        self.state = 'done'
        for cb in self._callbacks:
            cb(self)

    def result(self, timeout=None):
        self.ex._drive_until(self)
        if self.state == 'cancelled':
            from concurrent.futures import CancelledError
            raise CancelledError()
        if self._exc is not None:
            raise self._exc
        return self._result

    def exception(self, timeout=None):
        self.ex._drive_until(self)
        return self._exc


class SimExecutor:
    PROCESS = False

    def __init__(self, max_workers=None, *args, **kwargs):
        sim = CURRENT['sim']
        if sim is None:
            raise HarnessError('SimExecutor used outside a simulated operation')
        self.sim = sim
        if max_workers is not None and max_workers <= 0:
            raise ValueError('max_workers must be greater than 0')
        self.k = max_workers if max_workers is not None else 4
        self.pending = []
        self.running = []
        self.counter = itertools.count()
        self.broken = False
        self.shut = False
        self.eid = sim.executors
        sim.executors += 1
        sim.stats['pool:executor-' + ('process' if self.PROCESS else 'thread')] += 1

    # -- context manager
    def __enter__(self):
        return self

    def __exit__(self, *exc):
        self.shutdown(wait=True)
        return False

    def shutdown(self, wait=True, cancel_futures=False):
        self.shut = True
        if cancel_futures:
            for f in list(self.pending):
                f.cancel()
        if wait:
            while self.pending or self.running:
                self._step()

    # -- submission
    def submit(self, fn, *args, **kwargs):
        if self.shut:
            raise RuntimeError('cannot schedule new futures after shutdown')
        if self.broken:
            raise BrokenProcessPool('A child process terminated abruptly, the process pool is not usable anymore')
        idx = next(self.counter)
        payload = None
        f = SimFuture(self, idx, fn, args, kwargs)
        if self.PROCESS:
            try:
                f.payload = pickle.dumps((fn, args, kwargs))
            except Exception as e:  # delivered through the future, as the real queue feeder does
                self.sim.unpicklable += 1
                self.sim.stats['fault:unpicklable-task'] += 1
                f._finish(exc=e)
                return f
        self.pending.append(f)
        # buggify: a task may start and even finish before later arguments are generated
        while (self.pending or self.running) and self.sim.decider.chance(self.sim.p_early):
            self.sim.stats['pool:completed-at-submit-time'] += 1
            self._step()
        return f

    def _start_some(self):
        while self.pending and len(self.running) < self.k:
            f = self.pending.pop(0)  # FIFO start
            f.state = 'running'
            self.running.append(f)
            self.sim.starts.append((self.eid, f.idx))
        self.sim.max_in_flight = max(self.sim.max_in_flight, len(self.running))

    def _run(self, f):
        if self.PROCESS:
            try:
                fn, args, kwargs = pickle.loads(f.payload)
                r = fn(*args, **kwargs)
                r = pickle.loads(pickle.dumps(r))
            except BaseException as e:  # noqa: BLE001
                try:
                    e = pickle.loads(pickle.dumps(e))
                except Exception as e2:
                    e = e2
                return None, e
            return r, None
        try:
            return f.fn(*f.args, **f.kwargs), None
        except BaseException as e:  # noqa: BLE001
            return None, e

    def _step(self):
        '''One scheduler decision: pick which in-flight task completes next.'''
        self._start_some()
        if not self.running:
            return
        i = self.sim.decider.decide(len(self.running))
        f = self.running.pop(i)
        if self.PROCESS and self.sim.crash_at is not None and self.sim.completions == self.sim.crash_at:
            # the worker running this task dies: every incomplete future of the pool fails
            self.sim.stats['fault:worker-crash'] += 1
            self.broken = True
            self.sim.crashed = True
            self.sim.crash_at = None
            err = BrokenProcessPool('A process in the process pool was terminated abruptly while the future was running or pending.')
            for g in [f] + self.running + self.pending:
                g._finish(exc=err)
            self.running = []
            self.pending = []
            return
        r, e = self._run(f)
        self.sim.completions += 1
        self.sim.order.append((self.eid, f.idx))
        f._finish(result=r, exc=e)

    def _drive_until(self, f):
        guard = 0
        while not f.done():
            self._step()
            guard += 1
            if guard > 100000:
                raise HarnessError('SimExecutor made no progress')

    # -- map, as documented: arguments are collected immediately, results are yielded in order
    def map(self, fn, *iterables, timeout=None, chunksize=1):
        if chunksize < 1:
            raise ValueError('chunksize must be >= 1.')
        if self.PROCESS and chunksize > 1:
            it = zip(*iterables)
            chunks = []
            while True:
                chunk = tuple(itertools.islice(it, chunksize))
                if not chunk:
                    break
                chunks.append(chunk)
                # each chunk is submitted as it is cut, like Executor.map over _get_chunks
            fs = [self.submit(_process_chunk, fn, c) for c in chunks]
            self.sim.stats['pool:chunked-map'] += 1

            def chain():
                try:
                    fs.reverse()
                    while fs:
                        for r in fs.pop().result():
                            yield r
                finally:
                    for g in fs:
                        g.cancel()
            return chain()
        fs = [self.submit(fn, *args) for args in zip(*iterables)]

        def result_iterator():
            try:
                fs.reverse()
                while fs:
                    yield fs.pop().result()
            finally:
                for g in fs:
                    g.cancel()
        return result_iterator()


class SimThreadPoolExecutor(SimExecutor):
    '''Thread pool. With a Baton attached to the run, every task runs in a real thread that the baton
    schedules and pre-empts; otherwise tasks are atomic (inline).'''
    PROCESS = False

    def submit(self, fn, *args, **kwargs):
        baton = self.sim.baton
        if baton is None:
            return SimExecutor.submit(self, fn, *args, **kwargs)
        if self.shut:
            raise RuntimeError('cannot schedule new futures after shutdown')
        idx = next(self.counter)
        f = SimFuture(self, idx, fn, args, kwargs)
        ex = self

        def body():
            try:
                r, e = fn(*args, **kwargs), None
            except Exception as exc:  # noqa: BLE001
                r, e = None, exc
            ex.sim.completions += 1
            ex.sim.order.append((ex.eid, idx))
            if f in ex.running:
                ex.running.remove(f)
            f._finish(result=r, exc=e)
            ex._start_some_baton()
        f.ts = baton.spawn(body, f'task{self.eid}.{idx}')
        self.pending.append(f)
        self._start_some_baton()
        baton.yield_point('submit')
        return f

    def _start_some_baton(self):
        while self.pending and len(self.running) < self.k:
            f = self.pending.pop(0)
            f.state = 'running'
            self.running.append(f)
            self.sim.starts.append((self.eid, f.idx))
            self.sim.baton.start(f.ts)
        self.sim.max_in_flight = max(self.sim.max_in_flight, len(self.running))

    def _drive_until(self, f):
        baton = self.sim.baton
        if baton is None:
            return SimExecutor._drive_until(self, f)
        baton.block_until(f.done, 'result')
        if baton.error is not None:
            raise baton.error

    def shutdown(self, wait=True, cancel_futures=False):
        baton = self.sim.baton
        if baton is None:
            return SimExecutor.shutdown(self, wait=wait, cancel_futures=cancel_futures)
        self.shut = True
        if wait:
            baton.block_until(lambda: not self.pending and not self.running, 'shutdown')
        if baton.error is not None:
            raise baton.error


class SimProcessPoolExecutor(SimExecutor):
    PROCESS = True

    def map(self, fn, *iterables, timeout=None, chunksize=1):
        return SimExecutor.map(self, fn, *iterables, timeout=timeout, chunksize=chunksize)


def sim_as_completed(fs, timeout=None):
    '''as_completed over SimFutures: yields in the simulated completion order.'''
    fs = list(fs)
    remaining = set(range(len(fs)))
    while remaining:
        done = [i for i in sorted(remaining) if fs[i].done()]
        if not done:
            any_f = fs[sorted(remaining)[0]]
            any_f.ex._step()
            continue
        # deliver in the order they completed
        order = {(f.ex.eid, f.idx): n for n, (f) in enumerate([])}
        done.sort(key=lambda i: fs[i].ex.sim.order.index((fs[i].ex.eid, fs[i].idx)) if (fs[i].ex.eid, fs[i].idx) in fs[i].ex.sim.order else -1)
        for i in done:
            remaining.discard(i)
            yield fs[i]


def sim_wait(fs, timeout=None, return_when='ALL_COMPLETED'):
    fs = list(fs)
    if return_when == 'FIRST_COMPLETED':
        while fs and not any(f.done() for f in fs):
            fs[0].ex._step()
    elif return_when == 'FIRST_EXCEPTION':
        # returns as soon as any future has finished by raising; tasks not yet started stay pending
        while fs and not any(f.done() and f.state == 'done' and f._exc is not None for f in fs) and not all(f.done() for f in fs):
            nxt = next(f for f in fs if not f.done())
            nxt.ex._step()
    else:
        for f in fs:
            f.ex._drive_until(f)
    done = {f for f in fs if f.done()}
    from collections import namedtuple
    R = namedtuple('DoneAndNotDoneFutures', 'done not_done')
    return R(done, set(fs) - done)


def install(package='static_frame'):
    '''Rebind every name in the package that is bound to a concurrent.futures executor class or to as_completed /
    wait to the simulated counterpart; returns the undo list for uninstall().'''
    import sys
    import concurrent.futures as cf
    table = {cf.ThreadPoolExecutor: SimThreadPoolExecutor, cf.ProcessPoolExecutor: SimProcessPoolExecutor,
             cf.as_completed: sim_as_completed, cf.wait: sim_wait}
    saved = []
    for name, mod in sorted(sys.modules.items()):
        if mod is None or not (name == package or name.startswith(package + '.')):
            continue
        for attr, val in list(vars(mod).items()):
            if not (isinstance(val, type) or callable(val)) or not str(getattr(val, '__module__', '') or '').startswith('concurrent.futures'):
                continue
            rep = table.get(val)
            if rep is not None:
                saved.append((mod, attr, val))
                setattr(mod, attr, rep)
    return saved


def uninstall(saved):
    for mod, attr, val in saved:
        setattr(mod, attr, val)
    CURRENT['sim'] = None
