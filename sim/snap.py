'''Strict, static-frame-independent value snapshots and comparison.

A snapshot is a plain nested structure of Python values (lists, tuples, strs, ints...) that can be
compared with == and serialised by core.canon. Only public static-frame API is used to read the
containers, and no static-frame function computes an expected value.
'''
import math
import datetime

import numpy as np
from static_frame.core.index_base import IndexBase

NAN = ('nan',)
NAT = ('nat',)


def _dt_canon(x):
    '''Unit-independent text of a datetime64: equal instants compare equal whatever their unit (as they do in NumPy).'''
    try:
        t = str(x.astype('datetime64[ns]'))
    except Exception:
        return str(x)
    t = t.rstrip('0').rstrip('.') if '.' in t else t
    if t.endswith('T00:00:00'):
        t = t[:-9]
    return t


def norm(x):
    '''Normalise one label or cell to a comparable Python value. NaN/NaT are positional markers;
    bools are tagged so that True != 1; numpy scalars are unwrapped.'''
    if isinstance(x, (bool, np.bool_)):
        return ('b', bool(x))
    if isinstance(x, (np.datetime64,)):
        if np.isnat(x):
            return NAT
        return ('M', _dt_canon(x))
    if isinstance(x, (np.timedelta64,)):
        if np.isnat(x):
            return NAT
        try:
            return ('m', int(x.astype('timedelta64[ns]').astype('int64')))  # one canonical unit: 24 days == 2073600000000000 ns
        except Exception:
            return ('m', str(x))
    if isinstance(x, (datetime.date, datetime.datetime)):
        return ('M', _dt_canon(np.datetime64(x)))
    if isinstance(x, (float, np.floating)):
        x = float(x)
        if math.isnan(x):
            return NAN
        if math.isinf(x):
            return ('inf', x > 0)
        if x == int(x) and abs(x) < 2 ** 53:
            return int(x)  # 1.0 and 1 compare equal as cells; dtype is compared separately
        return x
    if isinstance(x, (int, np.integer)):
        return int(x)
    if isinstance(x, (str, np.str_)):
        return str(x)
    if isinstance(x, (bytes, np.bytes_)):
        return ('y', bytes(x))
    if isinstance(x, tuple):
        return tuple(norm(v) for v in x)
    if isinstance(x, list):
        return ['L'] + [norm(v) for v in x]
    if isinstance(x, np.ndarray):
        return ['A'] + [norm(v) for v in x.tolist()]
    if isinstance(x, complex):
        return ('c', x.real, x.imag)
    if x is None:
        return None
    if callable(x) and hasattr(x, '__qualname__'):
        return ('callable', getattr(x, '__module__', ''), x.__qualname__)  # never an address
    if isinstance(x, np.dtype):
        return ('dtype', str(x))  # the Python class of a dtype instance is not stable across copies in NumPy 2
    import re as _re
    return ('o', type(x).__name__, _re.sub(r' at 0x[0-9a-fA-F]+', '', repr(x)))


def norm_list(seq):
    return [norm(v) for v in seq]


def arr_cells(a):
    '''Cells of a 1-D or 2-D array as normalised nested lists.'''
    if a.ndim == 1:
        if a.dtype.kind in 'Mm':
            return [norm(v) for v in a]
        return [norm(v) for v in a.tolist()]
    return [arr_cells(row) for row in a]


def dt(a):
    '''dtype descriptor: kind + itemsize for fixed kinds, kind only for flexible ones (string width is not a value).'''
    d = a.dtype if isinstance(a, np.ndarray) else a
    if d.kind in 'US':
        return d.kind
    return d.str.lstrip('<>=|')


def snap_index(ix):
    import static_frame as sf
    if isinstance(ix, sf.IndexHierarchy):
        labels = [tuple(norm(v) for v in row) for row in ix.values.tolist()] if len(ix) else []
        try:
            dts = [dt(ix.values_at_depth(d)) for d in range(ix.depth)]
        except Exception as e:  # zero-length hierarchies may have no depth arrays
            dts = ['?' + type(e).__name__]
        return {'cls': type(ix).__name__, 'name': norm(ix.name), 'depth': ix.depth,
                'dts': dts, 'labels': labels}
    v = ix.values
    return {'cls': type(ix).__name__, 'name': norm(ix.name), 'dt': dt(v),
            'labels': arr_cells(v)}


def snap_series(s):
    return {'cls': type(s).__name__, 'name': norm(s.name), 'index': snap_index(s.index),
            'dt': dt(s.values), 'cells': arr_cells(s.values), 'shape': tuple(s.shape)}


def snap_frame(f):
    cols = []
    for a in f.iter_array(axis=0):
        cols.append((dt(a), arr_cells(a)))
    return {'cls': type(f).__name__, 'name': norm(f.name), 'shape': tuple(f.shape),
            'index': snap_index(f.index), 'columns': snap_index(f.columns), 'cols': cols}


def snap(obj):
    import static_frame as sf
    if isinstance(obj, sf.Frame):
        return snap_frame(obj)
    if isinstance(obj, sf.Series):
        return snap_series(obj)
    if isinstance(obj, IndexBase):
        return snap_index(obj)
    if isinstance(obj, np.ndarray):
        return {'cls': 'ndarray', 'dt': dt(obj), 'shape': tuple(obj.shape), 'cells': arr_cells(obj) if obj.ndim <= 2 else repr(obj)}
    return {'cls': type(obj).__name__, 'value': norm(obj)}


def strict_snap(obj):
    '''snap() plus the Python types of all labels (1 / True / 1.0 are told apart).'''
    import static_frame as sf
    out = dict(snap(obj))

    def types(ix):
        return [type(x).__name__ if not isinstance(x, (list, tuple)) else [type(y).__name__ for y in x] for x in ix.values.tolist()]
    if isinstance(obj, sf.Frame):
        out['types'] = [types(obj.index), types(obj.columns)]
    elif isinstance(obj, sf.Series):
        out['types'] = [types(obj.index)]
    elif isinstance(obj, IndexBase):
        out['types'] = [types(obj)]
    return out


def first_diff(a, b, path=''):
    '''Human readable location of the first difference between two snapshots.'''
    if type(a) != type(b):
        return f'{path}: {a!r} != {b!r}'
    if isinstance(a, dict):
        for k in sorted(set(a) | set(b)):
            if k not in a or k not in b:
                return f'{path}.{k}: missing on one side'
            d = first_diff(a[k], b[k], f'{path}.{k}')
            if d:
                return d
        return ''
    if isinstance(a, (list, tuple)):
        if len(a) != len(b):
            return f'{path}: len {len(a)} != {len(b)} ({a!r:.200} vs {b!r:.200})'
        for i, (x, y) in enumerate(zip(a, b)):
            d = first_diff(x, y, f'{path}[{i}]')
            if d:
                return d
        return ''
    if a != b:
        return f'{path}: {a!r} != {b!r}'
    return ''
