'''Run loop (one seed = one run), batch runner over worker processes, replay, minimisation,
known-finding matching and evidence writing.'''
import collections
import concurrent.futures as cf
import faulthandler
import json
import multiprocessing
import os
import subprocess
import sys
import time
import traceback

from sim.core import Chooser, Decider, EventLog, HarnessError, Violation, canon, derive_seed, h64

VERIF = os.path.dirname(os.path.dirname(os.path.abspath(__file__)))


# ------------------------------------------------------------------------------------------
# single run

def execute(world_cls, profile, config, seed=None, ops=None, keep_events=False, known_sigs=()):
    '''Execute one run. If ops is None the run is generated from `seed`; otherwise `ops` is
    replayed verbatim (no PRNG). A violation whose signature is listed in `known_sigs` (the
    committed known findings) is counted, the objects it concerns are dropped from the world, and
    the run goes on, so that a known defect does not hide a different one later in the same run.
    Returns a result dict (JSON-able except for sets).'''
    log = EventLog(keep=keep_events)
    ch = Chooser(seed) if ops is None else None
    world = world_cls(profile, config)
    rec = []
    violation = None
    known_hits = collections.Counter()
    step = -1

    def on_violation(v, op):
        if v.signature in known_sigs:
            known_hits[v.signature] += 1
            log.note('known', [v.signature, step])
            world.quarantine(op)
            return None
        log.note('violation', [v.signature, step])
        return {'oracle': v.oracle, 'site': v.site, 'cls': v.cls, 'detail': v.detail,
                'signature': v.signature, 'step': step, 'property': v.property_id}
    try:
        try:
            world.setup(log)
            log.add(-1, {'op': 'setup'}, 'ok', world.state_hash())
        except Violation as v:
            violation = on_violation(v, {'op': 'setup'})
        i = 0
        while violation is None:
            if ops is not None:
                if i >= len(ops):
                    break
                op = dict(ops[i])
            else:
                if i >= config.get('steps', 10):
                    break
                op = world.gen_op(ch)
                if op is None:
                    break
            step = i
            dec = Decider(chooser=ch) if ops is None else Decider(recorded=op.get('sched', []))
            rec.append(op)
            try:
                try:
                    out = world.apply(op, dec)
                finally:
                    if dec.out:
                        op['sched'] = list(dec.out)
                    elif 'sched' in op:
                        op['sched'] = []
                log.add(i, op, out, world.state_hash())
            except Violation as v:
                violation = on_violation(v, op)
            i += 1
        if violation is None:
            step = len(rec)
            for _ in range(64):
                try:
                    world.finish()
                    log.add(step, {'op': 'finish'}, 'ok', world.state_hash())
                    break
                except Violation as v:
                    violation = on_violation(v, {'op': 'finish'})
                    if violation is not None:
                        break
    finally:
        try:
            world.teardown()
        except Exception:
            pass
    return {
        'seed': seed,
        'config': config,
        'ops': rec,
        'digest': log.digest(),
        'steps': len(rec),
        'violation': violation,
        'known_hits': dict(known_hits),
        'stats': dict(world.stats),
        'states': log.states,
        'inter': set(world.interleavings),
        'sim_time': world.sim_time,
        'events': log.events if keep_events else None,
    }


# ------------------------------------------------------------------------------------------
# batch

_G = {}


def _chunk(args):
    (lo, hi, base_seed, tier, wall_limit) = args
    world_cls = _G['world_cls']
    profile = _G['profile']
    faulthandler.dump_traceback_later(wall_limit, exit=True)
    agg = {
        'runs': 0, 'steps': 0, 'stats': collections.Counter(), 'states': set(), 'inter': set(),
        'digests_nontrivial': set(), 'violations': [], 'sim_time': 0, 'samples': [],
        'errors': [], 'known_hits': collections.Counter(),
    }
    for i in range(lo, hi):
        seed = derive_seed(base_seed, world_cls.NAME, profile, i)
        try:
            cfg = world_cls.draw_config(Chooser(seed ^ 0x5bd1e995), profile, tier)
            r = execute(world_cls, profile, cfg, seed=seed, known_sigs=_G['known_sigs'])
        except Exception:
            agg['errors'].append({'run': i, 'seed': seed, 'trace': traceback.format_exc()[-3000:]})
            continue
        agg['runs'] += 1
        agg['steps'] += r['steps']
        agg['stats'].update(r['stats'])
        agg['states'] |= r['states']
        agg['inter'] |= r['inter']
        agg['sim_time'] += r['sim_time']
        agg['known_hits'].update(r['known_hits'])
        if world_cls.nontrivial(r['stats']):
            agg['digests_nontrivial'].add(h64(r['digest']))
        if r['violation'] is not None:
            agg['violations'].append({'run': i, 'seed': seed, 'config': r['config'], 'ops': r['ops'],
                                      'violation': r['violation'], 'digest': r['digest']})
        if len(agg['samples']) < 1 and r['steps'] >= 2:
            agg['samples'].append({'run': i, 'seed': seed, 'config': r['config'], 'ops': r['ops'][:12]})
    faulthandler.cancel_dump_traceback_later()
    return agg


def run_batch(world_cls, profile, tier, base_seed, n_runs, wall_budget, workers, chunk=25, max_violations=40, known_sigs=()):
    '''Seeded search: runs 0..n_runs-1 (or until the wall budget is used), in worker processes.'''
    _G['world_cls'] = world_cls
    _G['profile'] = profile
    _G['known_sigs'] = frozenset(known_sigs)
    t0 = time.time()
    total = {
        'runs': 0, 'steps': 0, 'stats': collections.Counter(), 'states': set(), 'inter': set(),
        'digests_nontrivial': set(), 'violations': [], 'sim_time': 0, 'samples': [], 'errors': [],
        'known_hits': collections.Counter(),
    }
    ctx = multiprocessing.get_context('fork')
    chunks = [(lo, min(lo + chunk, n_runs), base_seed, tier, 600) for lo in range(0, n_runs, chunk)]
    pending = set()
    it = iter(chunks)
    stopped_early = False
    with cf.ProcessPoolExecutor(max_workers=workers, mp_context=ctx) as ex:
        def submit_more():
            while len(pending) < workers * 2:
                try:
                    c = next(it)
                except StopIteration:
                    return False
                pending.add(ex.submit(_chunk, c))
            return True
        submit_more()
        while pending:
            done, _ = cf.wait(pending, timeout=900, return_when=cf.FIRST_COMPLETED)
            if not done:
                raise HarnessError('batch worker made no progress for 900 s')
            for f in done:
                pending.discard(f)
                try:
                    agg = f.result()
                except Exception as e:
                    raise HarnessError(f'batch worker died: {type(e).__name__}: {e}')
                total['runs'] += agg['runs']
                total['steps'] += agg['steps']
                total['stats'].update(agg['stats'])
                total['states'] |= agg['states']
                total['inter'] |= agg['inter']
                total['digests_nontrivial'] |= agg['digests_nontrivial']
                total['sim_time'] += agg['sim_time']
                total['known_hits'].update(agg['known_hits'])
                total['errors'].extend(agg['errors'])
                if len(total['samples']) < 3:
                    total['samples'].extend(agg['samples'])
                for v in agg['violations']:
                    if len(total['violations']) < 5000:
                        total['violations'].append(v)
            if time.time() - t0 < wall_budget and len({v['violation']['signature'] for v in total['violations']}) < max_violations:
                submit_more()
            else:
                if next(it, None) is not None:
                    stopped_early = True
                it = iter(())
    total['wall'] = time.time() - t0
    total['stopped_early'] = stopped_early
    return total


# ------------------------------------------------------------------------------------------
# minimisation (ddmin over the concrete op list, then per-op simplification offered by the world)

def _fails_same(world_cls, profile, config, ops, signature, known_sigs=()):
    try:
        r = execute(world_cls, profile, config, ops=ops, known_sigs=known_sigs)
    except Exception:
        return None
    v = r['violation']
    if v is not None and v['signature'] == signature:
        return r
    return None


def minimise(world_cls, profile, config, ops, signature, budget_runs=300, budget_s=60, known_sigs=()):
    t0 = time.time()
    runs = [0]

    def test(cfg, cand):
        if runs[0] >= budget_runs or time.time() - t0 > budget_s:
            return None
        runs[0] += 1
        return _fails_same(world_cls, profile, cfg, cand, signature, known_sigs)

    base = test(config, ops)
    if base is None:
        return config, ops, runs[0]
    # truncate after the failing step
    ops = base['ops']
    # ddmin
    n = 2
    while len(ops) >= 2:
        size = max(1, len(ops) // n)
        reduced = False
        for start in range(0, len(ops), size):
            cand = ops[:start] + ops[start + size:]
            if not cand:
                continue
            r = test(config, cand)
            if r is not None:
                ops = r['ops']
                n = max(n - 1, 2)
                reduced = True
                break
        if not reduced:
            if size == 1:
                break
            n = min(n * 2, len(ops))
        if runs[0] >= budget_runs or time.time() - t0 > budget_s:
            break
    # world-specific simplifications of single ops and of the configuration
    changed = True
    while changed and runs[0] < budget_runs and time.time() - t0 <= budget_s:
        changed = False
        for cfg2, ops2 in world_cls.simplify(config, ops):
            r = test(cfg2, ops2)
            if r is not None:
                config, ops = cfg2, r['ops']
                changed = True
                break
    return config, ops, runs[0]


# ------------------------------------------------------------------------------------------
# known findings

def load_known():
    p = os.path.join(VERIF, 'KNOWN_FINDINGS.json')
    if not os.path.exists(p):
        return []
    with open(p) as f:
        return json.load(f).get('findings', [])


def match_known(known, prop, signature):
    for k in known:
        if k.get('status') == 'known' and k.get('property') == prop and k.get('signature') == signature:
            return k
    return None


# ------------------------------------------------------------------------------------------
# replay files

def versions():
    import numpy
    import static_frame
    return {'python': sys.version.split()[0], 'numpy': numpy.__version__,
            'static_frame': static_frame.__version__}


def write_replay(prop, world_cls, profile, rec, tag):
    rdir = os.environ.get('VERIF_REPLAY_DIR') or os.path.join(VERIF, 'replays')
    os.makedirs(rdir, exist_ok=True)
    path = os.path.join(rdir, f'{prop}-{tag}.json')
    with open(path, 'w') as f:
        json.dump(rec, f, indent=1, default=str)
    return path


def replay_file(path, world_lookup, quiet=False):
    '''Re-execute a replay file with no PRNG. Returns (reproduced: bool, result).'''
    with open(path) as f:
        rec = json.load(f)
    world_cls = world_lookup(rec['world'])
    r = execute(world_cls, rec['profile'], rec['config'], ops=rec['ops'], keep_events=True,
                known_sigs=frozenset(rec.get('known_sigs', ())))
    v = r['violation']
    ok = (v is not None and v['signature'] == rec['signature'] and v['step'] == rec['step']
          and r['digest'] == rec['digest'])
    if not quiet:
        print(f"REPLAY file={path} expected={rec['signature']}@{rec['step']} digest={rec['digest'][:16]}")
        if v is None:
            print('REPLAY result: no violation')
        else:
            print(f"REPLAY result: {v['signature']}@{v['step']} digest={r['digest'][:16]} detail={v['detail'][:400]}")
    return ok, r, rec


def confirm_in_fresh_process(path, repo):
    '''Replay in a freshly exec'ed interpreter; exit status 1 + VIOLATION line means reproduced.'''
    env = dict(os.environ)
    env['PYTHONHASHSEED'] = '0'
    cmd = [sys.executable, os.path.join(VERIF, 'run_check.py'), '--replay', path, '--repo', repo]
    try:
        p = subprocess.run(cmd, capture_output=True, text=True, timeout=300, env=env)
    except subprocess.TimeoutExpired:
        return False, 'timeout'
    return (p.returncode == 1 and 'VIOLATION' in p.stdout), (p.stdout[-1500:] + p.stderr[-1500:])
